"""Replay a spec against /repo (or VF_REPO) in-process and print the full traceback: python tools/tb.py CXX sub file.json"""
import sys, json, importlib, os
sys.path.insert(0, os.environ.get('VF_REPO', '/repo'))
sys.path.insert(0, '/verif')
prop, sub, f = sys.argv[1:4]
mod = importlib.import_module('checks.' + prop.lower())
spec = json.load(open(f))
spec = spec.get('spec', spec)
s = [x for x in mod.SUBCHECKS if x.name == sub][0]
print(s.run(spec))
