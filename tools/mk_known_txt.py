"""Render known_findings.json as the line-oriented KNOWN_FINDINGS.txt (known: / fixed: lines)."""
import json, os
here = os.path.dirname(os.path.dirname(os.path.abspath(__file__)))
k = json.load(open(os.path.join(here, 'known_findings.json')))
lines = ['# generated from known_findings.json by tools/mk_known_txt.py; the checks read the JSON file (match = subset of the violation signature)',
         '# known: property=<id> <finding id> match=<signature subset> :: <what fails>      (check prints KNOWN-FINDING and exits 0)',
         '# fixed: property=<id> <commit in /repo> <what failed>                          (suppresses nothing)', '']
for f in k['findings']:
    if f['status'] == 'known':
        lines.append('known: property=%s %s match=%s :: %s' % (f['property'], f['id'], json.dumps(f['match'], sort_keys=True), f['what']))
for f in k['findings']:
    if f['status'] == 'fixed':
        lines.append('fixed: property=%s %s %s [%s]' % (f['property'], f['commit'], f['what'], f['id']))
open(os.path.join(here, 'KNOWN_FINDINGS.txt'), 'w').write('\n'.join(lines) + '\n')
print(len(lines) - 4, 'entries')
