#!/bin/sh
# run every stored seed against the check of its property; log "seed caught|missed|patch-failed"
OUT=${1:-/var/tmp/seed_matrix.log}
: > "$OUT"
for d in /verif/seeded/*/; do
  id=$(basename "$d"); prop=${id%-*}
  res=$(/verif/tools/seedrun.sh "$d/patch.diff" "$prop" 2>&1)
  if echo "$res" | grep -q "PATCH FAILED"; then st=patch-failed
  elif echo "$res" | grep -q "^VIOLATION"; then st=caught
  else st=missed; fi
  echo "$id $st $(echo "$res" | grep signature | head -2 | tr '\n' ' ' | cut -c1-300)" >> "$OUT"
done
