#!/bin/sh
# thorough tier of all checks, evidence into /verif/evidence_thorough; log: one line per check
OUT=${1:-/var/tmp/thorough_all.log}
cd /verif
for p in ${PROPS:-C20 C19 C16 C15 C17 C18 C12 C06 C05 C01 C02 C03 C04 C07 C08 C09 C10 C11 C14 C13}; do
  res=$(VF_EVIDENCE_DIR=/verif/evidence_thorough ./check $p --tier thorough 2>&1); rc=$?
  echo "$p rc=$rc $(echo "$res" | grep '^\[C' | tail -1)" >> "$OUT"
  echo "$res" | grep -A2 '^VIOLATION' >> "$OUT"
  echo "$res" | grep 'HARNESS' | head -3 >> "$OUT"
done
