#!/bin/sh
# usage: tools/seedrun.sh <patch.diff> <PROP> [extra ./check args]   -- run a check against a patched scratch copy of /repo
P="$1"; PROP="$2"; shift 2
D=$(mktemp -d /tmp/mut-XXXXXX)
cp -r /repo/tenpy /repo/setup.py /repo/pyproject.toml /repo/README.rst "$D"/ 2>/dev/null
find "$D" -name "*.so" -delete
( cd "$D" && patch -p1 -s < "$P" ) || { echo "PATCH FAILED"; rm -rf "$D"; exit 3; }
cd /verif && VF_REPO="$D" ./check "$PROP" --no-evidence "$@" 2>&1 | grep -v conda | grep "VIOLATION\|signature\|HARNESS\|^\[C" | cut -c1-300
rm -rf "$D"
