#!/bin/sh
# run the quick tier of every claimed check (writes evidence/CXX.json); log: <id> rc wall summary
OUT=${1:-/var/tmp/evidence_all.log}
: > "$OUT"
cd /verif
for p in C01 C02 C03 C04 C05 C06 C07 C08 C09 C10 C11 C12 C13 C14 C15 C16 C17 C18 C19 C20; do
  res=$(./check $p 2>&1); rc=$?
  echo "$p rc=$rc $(echo "$res" | grep '^\[C' | tail -1) known_lines=$(echo "$res" | grep -c '^KNOWN-FINDING') viol_lines=$(echo "$res" | grep -c '^VIOLATION') harness=$(echo "$res" | grep -c 'HARNESS-ERROR')" >> "$OUT"
done
