#!/bin/bash
# usage: tools/verify_seed.sh <seed-src-dir> <patch file name> <demo file name> <meta file name> <seed id>
# Confirms a seeded change in a fresh scratch worktree of /repo HEAD: demo passes without / fails with the change,
# and the unedited test-suite passes with the change.  On success the seed is stored under /verif/seeded/<id>/.
SRC="$1"; PATCH="$2"; DEMO="$3"; META="$4"; ID="$5"
WT=/tmp/seedverify/$ID
mkdir -p /tmp/seedverify; rm -rf "$WT"; git -C /repo worktree prune
git -C /repo worktree add --detach "$WT" HEAD -q 2>/dev/null || { echo "$ID: worktree failed"; exit 3; }
SO=$(ls -t /var/tmp/tenpy-vf-socache/*.so | head -1)
cp /repo/tenpy/linalg/_npc_helper.cpython-312-x86_64-linux-gnu.so "$WT/tenpy/linalg/"
cp "$SRC/$DEMO" "$WT/$DEMO"
cd "$WT"
export PYTHONPATH="$WT" OMP_NUM_THREADS=1
/venv/bin/python "$DEMO" > demo_clean.log 2>&1; RC_CLEAN=$?
if ! git apply "$SRC/$PATCH" 2>apply.log; then echo "$ID: patch does not apply: $(head -2 apply.log)"; cd /; git -C /repo worktree remove --force "$WT"; exit 4; fi
if grep -q "_npc_helper.pyx" "$SRC/$PATCH"; then /venv/bin/python setup.py build_ext --inplace > build.log 2>&1 || echo "build failed"; fi
/venv/bin/python "$DEMO" > demo_patched.log 2>&1; RC_PATCHED=$?
/venv/bin/python -m pytest -q -p no:cacheprovider --timeout=900 -n 5 tests > suite.log 2>&1
SUITE=$(tail -1 suite.log)
FAILED=$(grep -c "^FAILED" suite.log)
# flaky random-matrix tests of the unchanged tree are re-run once
if [ "$FAILED" != "0" ]; then
  grep "^FAILED" suite.log | sed 's/^FAILED \([^ ]*\).*/\1/' > failed.txt
  /venv/bin/python -m pytest -q -p no:cacheprovider --timeout=900 $(cat failed.txt) > rerun.log 2>&1
  RERUN=$(tail -1 rerun.log)
else RERUN=""; fi
echo "$ID: demo clean rc=$RC_CLEAN patched rc=$RC_PATCHED suite: $SUITE rerun: $RERUN"
if [ "$RC_CLEAN" = "0" ] && [ "$RC_PATCHED" = "1" ] && { [ "$FAILED" = "0" ] || echo "$RERUN" | grep -q "passed" && ! echo "$RERUN" | grep -q "failed"; }; then
  D=/verif/seeded/$ID; mkdir -p "$D"
  cp "$SRC/$PATCH" "$D/patch.diff"; cp "$SRC/$DEMO" "$D/demo.py"
  /venv/bin/python - "$SRC/$META" "$D/meta.json" "$ID" "$RC_CLEAN" "$RC_PATCHED" "$SUITE" "$RERUN" <<'PY'
import json, sys
src, dst, sid, rcc, rcp, suite, rerun = sys.argv[1:8]
try: m = json.load(open(src))
except Exception as e: m = {'meta_unreadable': str(e)}
m['seed_id'] = sid
m['confirmed_by_verifier'] = {'base': 'scratch worktree of /repo HEAD (includes the fix: commits)', 'demo_rc_unchanged_tree': int(rcc), 'demo_rc_with_change': int(rcp),
    'test_suite_with_change': suite, 'rerun_of_failed_tests': rerun,
    'commands': ['python demo.py (unchanged tree)', 'git apply patch.diff', 'python demo.py', 'python -m pytest -q -p no:cacheprovider --timeout=900 -n 5 tests']}
json.dump(m, open(dst, 'w'), indent=1)
PY
  echo "$ID: STORED"
else
  echo "$ID: NOT CONFIRMED"; tail -5 demo_clean.log; tail -5 demo_patched.log; grep "^FAILED" suite.log | head -5
fi
cd /; git -C /repo worktree remove --force "$WT"
