"""Regenerate §10.6 of DESIGN.md (findings and seed tables) from known_findings.json, seeded/*/meta.json and a seed matrix log."""
import json, os, sys, glob
here = os.path.dirname(os.path.dirname(os.path.abspath(__file__)))
k = json.load(open(os.path.join(here, 'known_findings.json')))
matrix = {}
log = sys.argv[1] if len(sys.argv) > 1 else os.path.join(here, 'seeded', 'matrix.log')
if os.path.exists(log):
    for line in open(log):
        parts = line.split(None, 2)
        if len(parts) >= 2:
            matrix[parts[0]] = (parts[1], parts[2].strip() if len(parts) > 2 else '')
out = ['### 10.6 Generated tables', '', '#### Genuine defects repaired in /repo (`fix:` commits)', '', '| finding | property | commit | what failed |', '|---|---|---|---|']
for f in k['findings']:
    if f['status'] == 'fixed':
        out.append('| %s | %s | `%s` | %s |' % (f['id'], f['property'], f['commit'], f['what'].replace('|', '/')))
out += ['', '#### Genuine defects recorded as known findings (not repaired: no small and safe patch)', '', '| finding | property | signature that is suppressed | what fails |', '|---|---|---|---|']
for f in k['findings']:
    if f['status'] == 'known':
        out.append('| %s | %s | `%s` | %s |' % (f['id'], f['property'], json.dumps(f['match'], sort_keys=True).replace('|', '/'), f['what'].replace('|', '/')))
out += ['', '#### Seeded changes (written by sub-agents from the property text only) and which check catches them', '',
        '| seed | file(s) | what it breaks | result of `tools/seedrun.sh` on the stored patch |', '|---|---|---|---|']
for d in sorted(glob.glob(os.path.join(here, 'seeded', '*', 'meta.json'))):
    m = json.load(open(d))
    sid = os.path.basename(os.path.dirname(d))
    st, sig = matrix.get(sid, ('not run', ''))
    note = m.get('catch_note', '')
    out.append('| %s | %s | %s | **%s** %s %s |' % (sid, ', '.join(m.get('files', [])), m['summary'][:260].replace('|', '/').replace('\n', ' '), st, sig[:160].replace('|', '/'), note))
text = '\n'.join(out) + '\n'
p = os.path.join(here, 'DESIGN.md')
s = open(p).read()
marker = '### 10.6 Generated tables'
if marker in s:
    s = s[:s.index(marker)]
open(p, 'w').write(s.rstrip('\n') + '\n\n' + text)
print('tables written:', len(out), 'lines')
