"""C15 - Truncation honours its constraints and reports its error exactly."""
import itertools
import math
import warnings

import numpy as np
from hypothesis import strategies as st

from vf.core import Sub, Violation, require, Skip
from vf import gen

LEVEL = 'exploration'
RULE = ('truncate: generated spectra (multiplets, zeros, tiny values, unsorted, unnormalised) x option lattice with '
        'thresholds placed between achievable values (margin >= 1e-9 rel.); oracle = brute-force enumeration of all '
        'cuts with the documented constraint priority. Non-trivial: >= 2 distinct values and >= 1 constraint that '
        'binds (reference answer changes when it is removed). decomp: svd_theta / eigh_rho / decompose_theta_qr_based '
        'on generated block-sparse matrices; non-trivial: >= 2 charge sectors and >= 1 discarded value. '
        'Distinct = distinct canonical JSON spec.')
ASSUMPTIONS = ['numpy.linalg.svd/norm as dense reference', 'thresholds within 1e-9 (relative) of a boundary are not generated']

# ------------------------------------------------------------------------------------------------
# sub-check 1: truncate(S, options)


@st.composite
def spectrum_specs(draw, tier):
    nmax = 40 if tier == 'thorough' else 24
    n_groups = draw(st.integers(1, 8))
    vals = []
    for _ in range(n_groups):
        kind = draw(st.sampled_from(['v', 'v', 'v', 'mult', 'zero', 'tiny', 'near']))
        if kind == 'v':
            vals.append(draw(st.integers(1, 1000)) / 1000.)
        elif kind == 'mult':
            v = draw(st.integers(1, 1000)) / 1000.
            vals.extend([v] * draw(st.integers(2, 5)))
        elif kind == 'zero':
            vals.extend([0.0] * draw(st.integers(1, 3)))
        elif kind == 'tiny':
            vals.append(10.0 ** (-draw(st.integers(12, 25))))
        else:  # nearly degenerate pair: relative difference 10^-k
            v = draw(st.integers(100, 1000)) / 1000.
            k = draw(st.integers(2, 7))
            vals.extend([v, v * (1 + 10.0 ** (-k))])
    vals = vals[:nmax]
    if not any(v > 0 for v in vals):
        vals[0] = 0.5
    perm_seed = draw(st.integers(0, 1000))
    normalize = draw(st.booleans())
    n = len(vals)
    opts = {}
    # option lattice; each possibly absent (default), None, or a value
    def opt(name, strat):
        mode = draw(st.sampled_from(['absent', 'none', 'val', 'val']))
        if mode == 'none':
            opts[name] = None
        elif mode == 'val':
            opts[name] = draw(strat)
    opt('chi_max', st.integers(1, n + 2))
    opt('chi_min', st.integers(1, n + 2))
    opt('degeneracy_tol', st.sampled_from([1e-9, 1e-5, 1e-3, 0.05, 0.5]))
    # svd_min / trunc_cut thresholds are given as ('between', k, frac): placed between achievable values
    opt('svd_min', st.tuples(st.integers(0, n), st.sampled_from([0.3, 0.5, 0.7])).map(list))
    opt('trunc_cut', st.tuples(st.integers(0, n), st.sampled_from([0.3, 0.5, 0.7])).map(list))
    return {'vals': vals, 'perm': perm_seed, 'normalize': normalize, 'opts': opts,
            'plain_dict': draw(st.booleans())}


def _materialize(spec):
    vals = np.array(spec['vals'], dtype=float)
    rng = np.random.default_rng(spec['perm'])
    S = vals[rng.permutation(len(vals))]
    if spec['normalize']:
        S = S / np.linalg.norm(S)
    srt = np.sort(S)  # ascending
    opts = {}
    borderline = False
    for k, v in spec['opts'].items():
        if k == 'svd_min' and v is not None:
            i, frac = v
            i = min(i, len(srt))
            lo = srt[i - 1] if i > 0 else 0.0
            hi = srt[i] if i < len(srt) else srt[-1] * 1.5
            if hi <= 0:
                hi = 1e-30
            if lo <= 0.:
                lo = min(1e-30, hi * 0.5)
            # geometric placement between neighbours
            thr = math.exp(math.log(lo) + frac * (math.log(hi) - math.log(lo))) if hi > lo else hi * 1.5
            opts[k] = thr
        elif k == 'trunc_cut' and v is not None:
            i, frac = v
            cs = np.concatenate([[0.], np.cumsum(srt**2)])
            i = min(i, len(srt) - 1)
            lo, hi = cs[i], cs[i + 1]
            thr2 = lo + frac * (hi - lo) if hi > lo else lo
            thr = math.sqrt(thr2)
            if thr >= 1.0:
                thr = 0.999
            opts[k] = thr
        else:
            opts[k] = v
    return S, opts


def _effective(opts):
    """Documented defaults."""
    e = {'chi_max': 100, 'chi_min': None, 'degeneracy_tol': None, 'svd_min': 1.e-14, 'trunc_cut': 1.e-14}
    e.update(opts)
    return e


def reference_truncate(S, opts, margin=1e-9):
    """Brute force from the docstring.  Returns (kept_count or None if borderline, binding info).

    Candidate results are 'keep the k largest values' for k = 1..n.  Constraints, in documented priority:
      chi_max  : k <= chi_max
      chi_min  : k >= chi_min
      deg_tol  : the cut does not separate neighbours with |log(S_i/S_j)| < deg_tol
      svd_min  : every S_i < svd_min is discarded
      trunc_cut: values are discarded as long as the discarded weight stays <= trunc_cut**2
                 (i.e. k is not larger than the smallest k whose discarded weight is <= trunc_cut**2 ... the
                 maximal discardable set is discarded)
    A constraint that cannot be satisfied together with the previous ones is ignored.  Among the remaining
    candidates the one keeping most values is returned."""
    e = _effective(opts)
    n = len(S)
    desc = np.sort(S)[::-1]
    cands = set(range(1, n + 1))
    borderline = False

    def apply(pred):
        nonlocal cands
        new = {k for k in cands if pred(k)}
        if new:
            cands = new
            return True
        return False

    if e['chi_max'] is not None:
        apply(lambda k: k <= e['chi_max'])
    if e['chi_min'] is not None and e['chi_min'] > 1:
        apply(lambda k: k >= e['chi_min'])
    dt = e['degeneracy_tol']
    if dt:
        def lg(x):
            return math.log(x) if x > 0 else math.log(1e-100)

        def ok_cut(k):
            if k == n:
                return True
            d = abs(lg(desc[k - 1]) - lg(desc[k]))
            return d >= dt
        for k in range(1, n):
            d = abs(lg(desc[k - 1]) - lg(desc[k]))
            if abs(d - dt) <= margin * max(1.0, dt) + 1e-12:
                borderline = True
        apply(ok_cut)
    if e['svd_min'] is not None:
        sm = e['svd_min']
        for x in desc:
            if x > 0 and abs(x - sm) <= margin * sm:
                borderline = True
        apply(lambda k: all(x >= sm for x in desc[:k]) and True)
        # "discard all S_i < svd_min": all kept values >= svd_min
    if e['trunc_cut'] is not None:
        tc2 = e['trunc_cut'] ** 2
        asc = desc[::-1]

        def pred(k):
            # keeping k means discarding the n-k smallest; the rule discards as long as weight <= tc2:
            # discarding one more (the smallest kept) must exceed tc2
            w_more = float(np.sum(asc[:n - k + 1] ** 2))
            return w_more > tc2
        for k in range(1, n + 1):
            w_more = float(np.sum(asc[:n - k + 1] ** 2))
            if abs(w_more - tc2) <= margin * max(tc2, 1e-300) + 1e-300:
                borderline = True
        apply(pred)
    return max(cands), borderline


def run_truncate(spec):
    from tenpy.linalg.truncation import truncate, TruncationError
    from tenpy.tools.params import Config
    S, opts = _materialize(spec)
    n = len(S)
    o = dict(opts) if spec['plain_dict'] else Config(dict(opts), 'truncation')
    S_in = S.copy()
    with warnings.catch_warnings():
        warnings.simplefilter('ignore')
        mask, norm_new, err = truncate(S, o)
    require(np.array_equal(S, S_in), 'input-mutated', 'truncate changed S')
    mask = np.asarray(mask)
    require(mask.dtype == np.bool_ and mask.shape == (n,), 'mask-shape', str(mask))
    kept = S[mask]
    disc = S[~mask]
    k = int(mask.sum())
    require(k >= 1, 'keeps-at-least-one', 'k=%d' % k)
    if len(disc):
        require(disc.max() <= kept.min(), 'discarded-larger-than-kept', 'max disc %r > min kept %r' % (disc.max(), kept.min()))
    e = _effective(opts)
    if e['chi_max'] is not None:
        require(k <= e['chi_max'], 'chi_max', 'kept %d > chi_max %d' % (k, e['chi_max']))
    # exact reporting
    require(abs(norm_new - np.linalg.norm(kept)) <= 1e-14 * max(1, np.linalg.norm(S)), 'norm_new',
            '%r vs %r' % (norm_new, np.linalg.norm(kept)))
    eps_ref = float(np.sum(disc.astype(float) ** 2))
    require(abs(err.eps - eps_ref) <= 1e-14 * max(eps_ref, 1e-300) + 1e-300, 'err.eps', '%r vs %r' % (err.eps, eps_ref))
    require(abs(err.ov - (1. - 2. * eps_ref)) <= 1e-14, 'err.ov', '%r vs %r' % (err.ov, 1 - 2 * eps_ref))
    kref, borderline = reference_truncate(S, opts)
    # ties: if the k-th and (k+1)-th largest are equal the *count* is still determined
    if not borderline:
        require(k == kref, 'reference-cut', 'kept %d, brute-force reference keeps %d; S=%s opts=%s' %
                (k, kref, np.sort(S)[::-1].tolist(), opts))
    # non-triviality: some constraint binds
    binds = False
    if not borderline:
        for name in list(opts):
            o2 = {kk: vv for kk, vv in opts.items() if kk != name}
            o2[name] = None
            k2, b2 = reference_truncate(S, o2)
            if k2 != kref:
                binds = True
                break
        if not binds:
            # defaults may bind as well (chi_max=100, svd_min=trunc_cut=1e-14)
            k3, _ = reference_truncate(S, {'chi_max': None, 'chi_min': None, 'degeneracy_tol': None,
                                           'svd_min': None, 'trunc_cut': None})
            binds = (k3 != kref)
    classes = []
    if borderline:
        classes.append('borderline-accepted-either-way')
    if k < n:
        classes.append('discards')
    for name, v in opts.items():
        classes.append('opt:%s=%s' % (name, 'None' if v is None else 'val'))
    return {'nontrivial': binds and len(set(S.tolist())) >= 2, 'classes': classes}


# error algebra


@st.composite
def err_specs(draw, tier):
    return {'parts': draw(st.lists(st.lists(st.integers(0, 1000), min_size=0, max_size=6), min_size=1, max_size=5)),
            'norm_old': draw(st.sampled_from([None, 1, 2, 5]))}


def run_err(spec):
    from tenpy.linalg.truncation import TruncationError
    tot = TruncationError()
    eps_sum = 0.
    ov = 1.
    for p in spec['parts']:
        s = np.array(p, dtype=float) / 4000.
        no = spec['norm_old']
        e = TruncationError.from_S(s, no)
        ref = float(np.sum(s ** 2)) / (no * no if no else 1.)
        require(abs(e.eps - ref) <= 1e-15, 'from_S.eps', '%r vs %r' % (e.eps, ref))
        require(abs(e.ov - (1 - 2 * ref)) <= 1e-15, 'from_S.ov')
        nn = math.sqrt(max(0., (no or 1.) ** 2 - float(np.sum(s**2))))
        e2 = TruncationError.from_norm(nn, no or 1.)
        require(abs(e2.eps - ref) <= 1e-12, 'from_norm.eps', '%r vs %r' % (e2.eps, ref))
        a_eps, a_ov = tot.eps, tot.ov
        tot = tot + e
        require(abs(tot.eps - (a_eps + e.eps)) <= 1e-15, 'add.eps')
        require(abs(tot.ov - a_ov * e.ov) <= 1e-15, 'add.ov')
        eps_sum += ref
        ov *= (1 - 2 * ref)
        c = tot.copy()
        require(c.eps == tot.eps and c.ov == tot.ov and c is not tot, 'copy')
    require(abs(tot.eps - eps_sum) <= 1e-13, 'sum.eps')
    require(abs(tot.ov - ov) <= 1e-13, 'sum.ov')
    require(abs(tot.ov_err - (1 - ov)) <= 1e-13, 'ov_err')
    return {'nontrivial': len(spec['parts']) >= 2 and eps_sum > 0}


# ------------------------------------------------------------------------------------------------
# sub-check 2: truncated decompositions of block-sparse matrices


@st.composite
def decomp_specs(draw, tier):
    ch = draw(gen.chinfo_specs(2))
    mod = ch['mod']
    # theta with legs [(vL.p0), (p1.vR)]: build from 4 legs
    legs = [draw(gen.leg_specs(mod, max_blocks=3, max_size=3)) for _ in range(4)]
    fill = draw(gen.fill_specs(('float64', 'complex128')))
    fill['kind'] = 'gauss'
    fill['absent'] = draw(st.sampled_from([0, 0, 2]))
    fill['zero'] = 0
    t = {'legs': [[0, 1], [1, 1], [2, 1], [3, 1]], 'qt': draw(st.integers(0, 30)), 'fill': fill}
    n = 40
    opts = {}
    mode = draw(st.sampled_from(['chi', 'chi', 'svd_min', 'trunc_cut', 'none']))
    if mode == 'chi':
        opts['chi_max'] = draw(st.integers(1, 12))
    elif mode == 'svd_min':
        opts['svd_min'] = draw(st.sampled_from([0.05, 0.1, 0.2, 0.3]))
    elif mode == 'trunc_cut':
        opts['trunc_cut'] = draw(st.sampled_from([0.05, 0.1, 0.3, 0.5]))
    if draw(st.booleans()):
        opts['degeneracy_tol'] = 1e-8
    which = draw(st.sampled_from(['svd_theta', 'svd_theta', 'eigh_rho', 'qr', 'qr']))
    return {'ch': ch, 'legs': legs, 't': t, 'opts': opts, 'which': which,
            'qtotal_LR': draw(st.sampled_from(['nn', 'qn', 'nq'])),
            'move_right': draw(st.booleans()), 'expand': draw(st.sampled_from([0.1, 0.5, 1.0, 3.0])),
            'min_block_increase': draw(st.integers(0, 2)), 'compute_err': draw(st.booleans()),
            'return_both_T': draw(st.booleans()), 'old_bond_seed': draw(st.integers(0, 1000)),
            'sort': draw(st.sampled_from([None, '>', '<', 'm>', 'm<'])), 'uplo': draw(st.sampled_from(['L', 'U']))}


def _isometry_defect(A, axes_contract, npc):
    """|| A^dagger A - 1 || contracting the given axis (0 or 1) of a matrix."""
    if axes_contract == 0:
        M = npc.tensordot(A.conj(), A, axes=[[0], [0]])
    else:
        M = npc.tensordot(A, A.conj(), axes=[[1], [1]])
    d = M.to_ndarray()
    return np.linalg.norm(d - np.eye(d.shape[0]))


def run_decomp(spec):
    from tenpy.linalg import np_conserved as npc
    from tenpy.linalg.truncation import svd_theta, eigh_rho, decompose_theta_qr_based, truncate
    chinfo = gen.build_chinfo(spec['ch'])
    pool = [gen.build_leg(chinfo, l) for l in spec['legs']]
    a4, dense4, info = gen.build_tensor(chinfo, pool, spec['t'])
    a4.iset_leg_labels(['vL', 'p0', 'p1', 'vR'])
    if info['stored_blocks'] == 0:
        raise Skip()
    theta = a4.combine_legs([['vL', 'p0'], ['p1', 'vR']], qconj=[+1, -1])
    dth = theta.to_ndarray()
    nrm = np.linalg.norm(dth)
    if nrm < 1e-6:
        raise Skip()
    opts = dict(spec['opts'])
    which = spec['which']
    classes = [which] + ['opt:' + k for k in opts]
    sv = np.linalg.svd(dth, compute_uv=False)
    sv = sv[sv > 1e-13 * sv[0]]
    # avoid borderline thresholds against the true singular values
    svn = sv / np.linalg.norm(sv)
    if 'svd_min' in opts and np.any(np.abs(svn - opts['svd_min']) < 1e-6):
        raise Skip()
    if 'trunc_cut' in opts:
        cs = np.cumsum(np.sort(svn) ** 2)
        if np.any(np.abs(cs - opts['trunc_cut'] ** 2) < 1e-9):
            raise Skip()
    if 'chi_max' in opts and len(svn) > opts['chi_max']:
        k = opts['chi_max']
        s_sorted = np.sort(svn)[::-1]
        if abs(s_sorted[k - 1] - s_sorted[k]) < 1e-9 * s_sorted[0] and 'degeneracy_tol' not in opts:
            pass  # ties at the cut: count is still fixed, fine
    tol = 1e-11
    with warnings.catch_warnings():
        warnings.simplefilter('ignore')
        if which == 'svd_theta':
            qLR = [None, None]
            if spec['qtotal_LR'] == 'qn':
                qLR = [theta.qtotal.copy(), None]
            elif spec['qtotal_LR'] == 'nq':
                qLR = [None, theta.qtotal.copy()]
            th_copy = theta.copy(deep=True)
            U, S, VH, err, renorm = svd_theta(theta, dict(opts), qtotal_LR=qLR)
            require(np.allclose(theta.to_ndarray(), th_copy.to_ndarray(), atol=0, rtol=0), 'input-mutated', 'svd_theta changed theta')
            U.test_sanity(); VH.test_sanity()
            require(list(U.get_leg_labels()) == ['(vL.p0)', 'vR'] and list(VH.get_leg_labels()) == ['vL', '(p1.vR)'],
                    'labels', '%s %s' % (U.get_leg_labels(), VH.get_leg_labels()))
            U.get_leg('vR').test_contractible(VH.get_leg('vL'))
            if spec['qtotal_LR'] == 'qn':
                require(np.all(U.qtotal == theta.qtotal) and not np.any(VH.qtotal), 'qtotal_LR', '%s %s' % (U.qtotal, VH.qtotal))
            elif spec['qtotal_LR'] == 'nq':
                require(np.all(VH.qtotal == theta.qtotal) and not np.any(U.qtotal), 'qtotal_LR', '%s %s' % (U.qtotal, VH.qtotal))
            else:
                require(np.all(chinfo.make_valid(U.qtotal + VH.qtotal) == theta.qtotal), 'qtotal_LR sum')
            require(abs(np.linalg.norm(S) - 1) < 1e-12, 'S-normalized', repr(np.linalg.norm(S)))
            require(np.all(S > 0), 'S-positive')
            require(_isometry_defect(U, 0, npc) < 1e-10, 'U-isometry')
            require(_isometry_defect(VH, 1, npc) < 1e-10, 'VH-isometry')
            approx = npc.tensordot(U.scale_axis(S * renorm, 1), VH, axes=1).to_ndarray()
            eps_true = np.linalg.norm(dth / nrm - approx / nrm) ** 2
            require(abs(eps_true - err.eps) <= 1e-10, 'err.eps==reconstruction-error', 'true %r reported %r' % (eps_true, err.eps))
            # kept values are the largest singular values of the dense matrix
            k = len(S)
            ref = np.sort(svn)[::-1][:k]
            require(np.allclose(np.sort(S * renorm / nrm)[::-1], ref, atol=1e-10), 'kept-are-largest',
                    '%s vs %s' % (np.sort(S * renorm / nrm)[::-1], ref))
            # and the count is what truncate() says for the dense spectrum
            m, _, _ = truncate(svn, dict(opts))
            kref, borderline = reference_truncate(svn, opts, margin=1e-7)
            if not borderline:
                require(k == kref, 'reference-cut', 'kept %d, reference %d' % (k, kref))
            if 'chi_max' in opts:
                require(k <= opts['chi_max'], 'chi_max')
            nontrivial = info['multi_block_leg'] and k < len(svn)
            return {'nontrivial': bool(nontrivial), 'classes': classes + (['discards'] if k < len(svn) else [])}
        elif which == 'eigh_rho':
            rho = npc.tensordot(theta, theta.conj(), axes=[[1], [1]])  # [(vL.p0), (vL*.p0*)]
            drho = rho.to_ndarray()
            W, V, err = eigh_rho(rho, dict(opts), UPLO=spec['uplo'], sort=spec['sort'])
            V.test_sanity()
            require(_isometry_defect(V, 0, npc) < 1e-10, 'V-isometry')
            tr = np.trace(drho).real
            wref = np.linalg.eigvalsh(drho)[::-1]
            wref = np.where(wref < 1e-14, 0, wref)
            k = len(W)
            require(np.allclose(np.sort(W)[::-1] , wref[:k] * (np.sum(W) / max(np.sum(wref[:k]), 1e-300)), atol=1e-9 * max(1, tr)), 'eigh_rho-kept-are-largest',
                    '%s vs %s' % (np.sort(W)[::-1], wref[:k]))
            # W = W_kept / new_norm**2 * renormalization : trace is restored
            require(abs(np.sum(W) - tr) <= 1e-9 * max(1, tr), 'eigh_rho-trace', '%r vs %r' % (np.sum(W), tr))
            eps_ref = float(np.sum(wref[k:])) / float(np.sum(wref))
            require(abs(err.eps - eps_ref) <= 1e-10, 'err.eps', 'reported %r, discarded weight %r' % (err.eps, eps_ref))
            # eigenpairs: rho V = V diag(W') with W' the unrescaled eigenvalues
            Vd = V.to_ndarray()
            scale = np.sum(wref[:k]) / tr if tr > 0 else 1.
            resid = np.linalg.norm(drho @ Vd - Vd * (W * scale)[None, :])
            require(resid <= 1e-9 * max(1, tr), 'eigh_rho-eigenpairs', repr(resid))
            nontrivial = info['multi_block_leg'] and k < np.sum(wref > 0)
            return {'nontrivial': bool(nontrivial), 'classes': classes}
        else:
            # QR based decomposition.  old bond leg: a sub-leg of the new bond, as guaranteed in the algorithm
            # (vR of the old left tensor): we derive it from an exact SVD with small chi.
            U0, S0, V0, _, _ = svd_theta(theta, {'chi_max': max(1, len(svn) // 2), 'svd_min': 1e-12}, qtotal_LR=[theta.qtotal.copy(), None])
            old_leg = U0.get_leg('vR')
            mr = spec['move_right']
            if not mr:
                old_leg = V0.get_leg('vL')
            old_qL = theta.qtotal.copy()
            old_qR = chinfo.make_valid(None)
            compute_err = spec['compute_err']
            both = spec['return_both_T'] or compute_err
            o = dict(opts)
            o.setdefault('chi_max', 100)
            TL, S, TR, form, err, renorm = decompose_theta_qr_based(
                old_qL, old_qR, old_leg, theta, mr, spec['expand'], spec['min_block_increase'], False, o,
                compute_err, spec['return_both_T'])
            require(abs(np.linalg.norm(S) - 1) < 1e-12, 'S-normalized', repr(np.linalg.norm(S)))
            require(form == ['A', 'B'], 'form')
            if mr or both:
                require(TL is not None, 'T_Lc missing')
                TL.test_sanity()
                require(list(TL.get_leg_labels()) == ['(vL.p)', 'vR'], 'labels', str(TL.get_leg_labels()))
                require(_isometry_defect(TL, 0, npc) < 1e-9, 'T_Lc-isometry')
            else:
                require(TL is None, 'T_Lc should be None')
            if (not mr) or both:
                require(TR is not None, 'T_Rc missing')
                TR.test_sanity()
                require(list(TR.get_leg_labels()) == ['vL', '(p.vR)'], 'labels', str(TR.get_leg_labels()))
                require(_isometry_defect(TR, 1, npc) < 1e-9, 'T_Rc-isometry')
            else:
                require(TR is None, 'T_Rc should be None')
            if 'chi_max' in opts:
                require(len(S) <= opts['chi_max'], 'chi_max')
            if both:
                approx = npc.tensordot(TL.scale_axis(S, 'vR'), TR, ['vR', 'vL']).to_ndarray() * renorm
                eps_true = np.linalg.norm(dth / nrm - approx / nrm) ** 2
                if compute_err:
                    require(abs(eps_true - err.eps) <= 1e-10, 'err.eps==reconstruction-error', 'true %r reported %r' % (eps_true, err.eps))
                    require(abs(err.ov - (1 - 2 * err.eps)) <= 1e-12, 'err.ov')
                # the approximation can never beat the optimal rank-k approximation
                k = len(S)
                best = float(np.sum(np.sort(svn)[::-1][k:] ** 2))
                require(eps_true >= best - 1e-10, 'better-than-optimal', 'eps %r < optimal %r' % (eps_true, best))
            if not compute_err:
                require(np.isnan(err.eps), 'err-nan-when-not-computed')
            return {'nontrivial': bool(info['multi_block_leg']), 'classes': classes + ['mr' if mr else 'ml']}


# ------------------------------------------------------------------------------------------------
# sub-check 4: histories of truncations with error accumulation (shared-state bugs)


@st.composite
def history_specs(draw, tier):
    n = draw(st.integers(2, 6))
    return {'steps': [draw(spectrum_specs('quick')) for _ in range(n)], 'acc': [draw(st.sampled_from(['+=', '+', 'first'])) for _ in range(n)]}


def run_history(spec):
    from tenpy.linalg.truncation import truncate, TruncationError
    total = None
    total_ref = 0.
    ov_ref = 1.
    lossy_before_lossless = False
    seen_lossy = False
    for st_spec, acc in zip(spec['steps'], spec['acc']):
        S, opts = _materialize(st_spec)
        with warnings.catch_warnings():
            warnings.simplefilter('ignore')
            mask, norm_new, err = truncate(S, dict(opts))
        eps_ref = float(np.sum(S[~mask] ** 2))
        require(abs(err.eps - eps_ref) <= 1e-14 * max(eps_ref, 1e-300) + 1e-300, 'history-err.eps',
                'truncation reports eps=%r but discarded weight is %r' % (err.eps, eps_ref))
        require(abs(err.ov - (1 - 2 * eps_ref)) <= 1e-14, 'history-err.ov', '%r vs %r' % (err.ov, 1 - 2 * eps_ref))
        if eps_ref == 0 and seen_lossy:
            lossy_before_lossless = True
        if eps_ref > 0:
            seen_lossy = True
        if total is None or acc == 'first' and total is None:
            total = err  # the first returned error is used as accumulator, as user code commonly does
        elif acc == '+':
            total = total + err
        else:
            total += err
        total_ref += eps_ref
        ov_ref *= (1 - 2 * eps_ref)
        require(abs(total.eps - total_ref) <= 1e-12 * max(1., total_ref), 'history-accumulated-eps', '%r vs %r' % (total.eps, total_ref))
        require(abs(total.ov - ov_ref) <= 1e-12, 'history-accumulated-ov', '%r vs %r' % (total.ov, ov_ref))
    return {'nontrivial': lossy_before_lossless}


SUBCHECKS = [
    Sub('truncate', spectrum_specs, run_truncate, quick=16000, thorough=1500000),
    Sub('trunc_err_algebra', err_specs, run_err, quick=2000, thorough=50000),
    Sub('decomp', decomp_specs, run_decomp, quick=3000, thorough=150000),
    Sub('history', history_specs, run_history, quick=3000, thorough=100000),
]
