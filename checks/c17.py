"""C17 - Saving and loading reproduces an equal object."""
import io
import os
import pickle
import pkgutil
import importlib
import tempfile
import warnings

import numpy as np
from hypothesis import strategies as st

from vf.core import Sub, Violation, require, Skip
from vf import gen
from vf import mps as M

LEVEL = 'exploration'
RULE = ('(containers) generated nestings (depth <= 4) of the documented container types: None, bool, int (also > 2^64), float (inf, nan), '
        'complex, str (unicode, empty, "/"), numpy scalars and arrays (all dtypes, empty, 0-d, structured), masked arrays (also with '
        'entries equal to fill_value), list, tuple, set, dict with simple and general keys, range, dtype, with shared references and '
        'self-references inserted by the generator; (objects) every class of the package that defines save_hdf5 (discovered by '
        'reflection over the tenpy package; a registry maps classes to instance generators reused from C01-C12: charge infos incl. '
        'dipolar, legs, pipes, arrays, sites, grouped sites, MPS (finite / infinite / segment), MPO, lattices, models, term containers, '
        'truncation errors, Config), saved through HDF5 with every LegCharge format (blocks / compact / flat) and through pickle. '
        'Oracle: the round trip: recursive observational equality (type, value, dtype, shape, test_sanity, dense tensors / states / '
        'operators) and preservation of the sharing structure (every pair of paths that referenced one object before refers to one '
        'object after). Non-trivial: an exportable class instance, or a container with depth >= 2 or a shared / cyclic member. Distinct = '
        'distinct canonical JSON spec.')
ASSUMPTIONS = ['instance generators of C01-C12']


# ------------------------------------------------------------------------------------------------
# generic observational equality + sharing structure

SCALARS = (bool, int, float, complex, str, bytes, type(None), np.generic)


def eq_scalar(a, b):
    if isinstance(a, (float, complex, np.floating, np.complexfloating)):
        return bool(a == b) or (np.isnan(a) and np.isnan(b))
    return bool(a == b)


def children(obj):
    """(key, child) pairs of containers / objects relevant for identity and equality"""
    import tenpy.linalg.np_conserved as npc
    if isinstance(obj, (list, tuple)):
        return [(i, v) for i, v in enumerate(obj)]
    if isinstance(obj, dict):
        return [(('k', repr(k)), v) for k, v in obj.items()]
    if isinstance(obj, (set, frozenset, np.ndarray, range, np.dtype)) or isinstance(obj, SCALARS) or callable(obj):
        return []
    d = getattr(obj, '__dict__', None)
    out = []
    if d is not None:
        out += [(('a', k), v) for k, v in d.items()]
    for cls in type(obj).__mro__:
        for slot in getattr(cls, '__slots__', ()):
            if hasattr(obj, slot):
                out.append((('s', slot), getattr(obj, slot)))
    return out


IGNORED_ATTRS = {'_BZ', '_reciprocal_basis', 'logger', '_cache', 'options_unused', '_graph', 'unused', '_mps2lat_vals_idx', '_mps2lat_vals_idx_fix_u', '_mps_fix_u', '_perm', '_strides',
                 '_order', '_mpo_graph', 'cache'}


def obs_equal(a, b, path, memo, depth=0, inside=False):
    """raise Violation at the first observable difference; `inside` an exportable object the exact numeric type of an
    attribute (int vs numpy integer, list vs tuple of numbers) is an implementation detail, not an observation"""
    import tenpy.linalg.np_conserved as npc
    if inside:
        num = (int, float, complex, np.number, bool, np.bool_)
        if isinstance(a, num) and isinstance(b, num) and not isinstance(a, str):
            if not eq_scalar(a, b):
                raise Violation('roundtrip-differs', 'value %r became %r at %s' % (a, b, path), cls=type(a).__name__)
            return
        if isinstance(a, (list, tuple)) and isinstance(b, (list, tuple, np.ndarray)) and type(a) is not type(b):
            b = type(a)(b)
        if isinstance(a, np.ndarray) and isinstance(b, (list, tuple)):
            b = np.asarray(b, dtype=a.dtype)
    key = (id(a), id(b))
    if key in memo:
        return
    memo.add(key)
    if depth > 40:
        return

    def fail(what):
        raise Violation('roundtrip-differs', '%s at %s' % (what, path), cls=type(a).__name__)
    if {type(a), type(b)} == {bool, np.bool_}:
        # the format has a single REPR_BOOL for both: equivalent by design
        if bool(a) != bool(b):
            fail('value %r became %r' % (a, b))
        return
    if type(a) is not type(b):
        # documented: numpy integer scalars may come back as python ints? no: types are recorded; strict
        fail('type %s became %s' % (type(a).__name__, type(b).__name__))
    if isinstance(a, np.ma.MaskedArray):
        if a.shape != b.shape or a.dtype != b.dtype:
            fail('masked array shape/dtype %r %r vs %r %r' % (a.shape, a.dtype, b.shape, b.dtype))
        if not np.array_equal(np.ma.getmaskarray(a), np.ma.getmaskarray(b)):
            fail('mask differs')
        if not np.array_equal(a.filled(0), b.filled(0)):
            fail('masked data differs')
        return
    if isinstance(a, np.ndarray):
        if a.shape != b.shape or a.dtype != b.dtype:
            fail('array shape/dtype %r %r vs %r %r' % (a.shape, a.dtype, b.shape, b.dtype))
        if a.dtype.kind in 'fc':
            ok = np.array_equal(a, b, equal_nan=True)
        elif a.dtype.kind == 'O':
            ok = len(a.ravel()) == len(b.ravel())
            for x, y in zip(a.ravel(), b.ravel()):
                obs_equal(x, y, path + '[]', memo, depth + 1, inside)
        else:
            ok = np.array_equal(a, b)
        if not ok:
            fail('array values differ')
        return
    if isinstance(a, SCALARS):
        if not eq_scalar(a, b):
            fail('value %r became %r' % (a, b))
        return
    if isinstance(a, (range, np.dtype)):
        if a != b:
            fail('%r became %r' % (a, b))
        return
    if isinstance(a, (set, frozenset)):
        if a != b:
            fail('set %r became %r' % (a, b))
        return
    if callable(a) and not hasattr(a, '__dict__'):
        if a is not b:
            fail('global object not identical')
        return
    if isinstance(a, type) or type(a).__name__ in ('function', 'builtin_function_or_method'):
        if a is not b:
            fail('global object not identical')
        return
    if isinstance(a, (list, tuple)):
        if len(a) != len(b):
            fail('length %d became %d' % (len(a), len(b)))
        for i, (x, y) in enumerate(zip(a, b)):
            obs_equal(x, y, '%s[%d]' % (path, i), memo, depth + 1, inside)
        return
    if isinstance(a, dict):
        ka, kb = list(a.keys()), list(b.keys())
        if len(ka) != len(kb):
            fail('dict with %d keys became %d keys' % (len(ka), len(kb)))
        try:
            same = set(ka) == set(kb)
        except TypeError:
            same = sorted(map(repr, ka)) == sorted(map(repr, kb))
        if not same:
            fail('dict keys %r became %r' % (ka, kb))
        for k in ka:
            obs_equal(a[k], b[k], '%s[%r]' % (path, k), memo, depth + 1, inside)
        return
    if isinstance(a, npc.Array):
        b.test_sanity()
        if a.rank != b.rank or a.shape != b.shape or a.dtype != b.dtype:
            fail('Array rank/shape/dtype')
        if list(a.get_leg_labels()) != list(b.get_leg_labels()):
            fail('labels %r became %r' % (a.get_leg_labels(), b.get_leg_labels()))
        if not np.array_equal(a.qtotal, b.qtotal):
            fail('qtotal')
        for k, (la, lb) in enumerate(zip(a.legs, b.legs)):
            obs_equal(la, lb, '%s.legs[%d]' % (path, k), memo, depth + 1, True)
        if not np.array_equal(a.to_ndarray(), b.to_ndarray()):
            fail('Array entries differ')
        if a.chinfo != b.chinfo:
            fail('chinfo')
        return
    # generic objects: sanity + recursive state
    if hasattr(b, 'test_sanity'):
        try:
            b.test_sanity()
        except Exception as e:
            fail('test_sanity of the loaded object raises %s: %s' % (type(e).__name__, str(e)[:100]))
    ca, cb = dict_state(a), dict_state(b)
    if type(a).__name__ == 'UniformMPS':
        # the diagonal gauge (`_S`, `diagonal_gauge`) is a cache that is documented not to be saved; observable through to_MPS()
        for d in (ca, cb):
            d.pop('_S', None)
            d.pop('diagonal_gauge', None)
        ma, mb = a.copy().to_MPS(), b.copy().to_MPS()
        ov = abs(ma.overlap(mb))
        if abs(ov - 1.) > 1e-10:
            fail('to_MPS() of the loaded UniformMPS differs: overlap %r' % ov)
    if set(ca) != set(cb):
        fail('attributes %r vs %r' % (sorted(set(ca) - set(cb)), sorted(set(cb) - set(ca))))
    for k in ca:
        obs_equal(ca[k], cb[k], '%s.%s' % (path, k), memo, depth + 1, True)


def dict_state(obj):
    out = {}
    for k, v in children(obj):
        name = k[1] if isinstance(k, tuple) else k
        if name in IGNORED_ATTRS:
            continue
        out[name] = v
    return out


IDENTITY_TYPES_EXCLUDED = SCALARS + (range, np.dtype, type, frozenset)


def identity_paths(obj, limit=4000):
    """map id -> list of paths (breadth first, bounded), only for objects where identity is observable"""
    seen = {}
    visited = set()
    queue = [((), obj, False)]
    count = 0
    while queue and count < limit:
        path, o, inside = queue.pop(0)
        count += 1
        if isinstance(o, IDENTITY_TYPES_EXCLUDED) or callable(o) and not hasattr(o, '__dict__'):
            continue
        if isinstance(o, tuple) and len(o) == 0:
            continue
        exportable = hasattr(o, 'save_hdf5')
        # inside an exportable object only exportable members count (e.g. a LegCharge shared by several Arrays); the raw arrays
        # and lists an object is made of are implementation details
        if exportable or not inside:
            seen.setdefault(id(o), []).append(path)
        if id(o) in visited:
            continue
        visited.add(id(o))
        for k, v in children(o):
            name = k[1] if isinstance(k, tuple) else k
            if name in IGNORED_ATTRS:
                continue
            queue.append((path + (k,), v, inside or exportable))
    return seen


def follow(obj, path):
    for k in path:
        if isinstance(k, tuple):
            kind, name = k
            if kind == 'k':
                for kk, v in obj.items():
                    if repr(kk) == name:
                        obj = v
                        break
                else:
                    raise KeyError(name)
            else:
                obj = getattr(obj, name) if kind == 's' else obj.__dict__[name]
        else:
            obj = obj[k]
    return obj


def check_sharing(orig, loaded, tags):
    shared = 0
    for oid, paths in identity_paths(orig).items():
        if len(paths) < 2:
            continue
        try:
            objs = [follow(loaded, p) for p in paths[:6]]
        except (KeyError, AttributeError, IndexError, TypeError):
            continue  # structural differences are reported by obs_equal
        shared += 1
        for p, o in zip(paths[1:6], objs[1:]):
            require(o is objs[0], 'sharing-lost', 'object referenced at %r and %r is no longer shared after loading (%s)' % (paths[0], p, type(o).__name__), **tags)
    return shared


def roundtrip(obj, how, fmt=None):
    if how == 'pickle':
        return pickle.loads(pickle.dumps(obj, protocol=4))
    import h5py
    from tenpy.tools import hdf5_io
    fd, fn = tempfile.mkstemp(suffix='.h5', dir=os.environ.get('VF_TMP', None))
    os.close(fd)
    try:
        with h5py.File(fn, 'w') as f:
            saver = hdf5_io.Hdf5Saver(f, format_selection={'LegCharge': fmt} if fmt else None)
            saver.save(obj)
        with h5py.File(fn, 'r') as f:
            return hdf5_io.Hdf5Loader(f, ignore_unknown=False).load()
    finally:
        os.unlink(fn)


# ------------------------------------------------------------------------------------------------
# containers

DTYPES = ['int64', 'int32', 'uint8', 'float64', 'float32', 'complex128', 'complex64', 'bool']  # (numpy unicode arrays are rejected by h5py)


@st.composite
def leaf_specs(draw):
    kind = draw(st.sampled_from(['none', 'bool', 'int', 'bigint', 'float', 'complex', 'str', 'npscalar', 'array', 'masked', 'range', 'dtype', 'emptyc', 'array']))
    if kind == 'int':
        return {'t': 'int', 'v': draw(st.integers(-2 ** 40, 2 ** 40))}
    if kind == 'bigint':
        return {'t': 'int', 'v': draw(st.sampled_from([2 ** 63 - 1, -2 ** 63, 2 ** 63, 2 ** 64, 2 ** 70 + 3, -2 ** 80]))}
    if kind == 'float':
        return {'t': 'float', 'v': draw(st.sampled_from(['0.0', '-0.0', '1.5', 'inf', '-inf', 'nan', '1e-310', '1.7976931348623157e308']))}
    if kind == 'complex':
        return {'t': 'complex', 'v': [draw(st.integers(-3, 3)), draw(st.integers(-3, 3))]}
    if kind == 'str':
        return {'t': 'str', 'v': draw(st.sampled_from(['', 'a', 'five', 'with space', 'a/b', 'ünïcödé', '0', 'keys', 'values', '.', '日本']))}
    if kind == 'npscalar':
        return {'t': 'npscalar', 'dt': draw(st.sampled_from(['int64', 'int32', 'float64', 'float32', 'complex128', 'bool'])), 'v': draw(st.integers(0, 5))}
    if kind == 'array':
        return {'t': 'array', 'dt': draw(st.sampled_from(DTYPES)), 'shape': draw(st.lists(st.integers(0, 3), min_size=0, max_size=3)), 'seed': draw(st.integers(0, 99)),
                'order': draw(st.sampled_from(['C', 'F', 'T']))}
    if kind == 'masked':
        return {'t': 'masked', 'dt': draw(st.sampled_from(['int64', 'float64'])), 'n': draw(st.integers(0, 5)), 'seed': draw(st.integers(0, 99)),
                'hit_fill': draw(st.booleans()), 'nomask': draw(st.booleans())}
    if kind == 'range':
        return {'t': 'range', 'v': [draw(st.integers(-3, 3)), draw(st.integers(-3, 9)), draw(st.sampled_from([1, 2, -1, 3]))]}
    if kind == 'dtype':
        return {'t': 'dtype', 'v': draw(st.sampled_from(['int64', 'float32', 'complex128', 'bool', 'struct']))}
    if kind == 'emptyc':
        return {'t': draw(st.sampled_from(['list', 'tuple', 'set', 'dict'])), 'c': []}
    return {'t': kind}


def tree_specs():
    def extend(ch):
        return st.one_of(
            st.builds(lambda c: {'t': 'list', 'c': c}, st.lists(ch, max_size=4)),
            st.builds(lambda c: {'t': 'tuple', 'c': c}, st.lists(ch, max_size=3)),
            st.builds(lambda c, k: {'t': 'dict', 'c': c, 'keys': k}, st.lists(ch, max_size=4), st.sampled_from(['simple', 'general', 'mixed', 'tuplekeys'])),
            st.builds(lambda i: {'t': 'ref', 'i': i}, st.integers(0, 30)),
            st.builds(lambda c: {'t': 'set', 'c': c}, st.lists(st.integers(-5, 5), max_size=4)),
        )
    return st.recursive(leaf_specs(), extend, max_leaves=14)


@st.composite
def container_specs(draw, tier):
    return {'tree': draw(tree_specs()), 'cycle': draw(st.booleans()), 'how': draw(st.sampled_from(['hdf5', 'hdf5', 'pickle']))}


def build_tree(spec, built):
    """build the python object of a spec; `built` collects mutable nodes for 'ref' sharing"""
    t = spec['t']
    if t == 'none':
        return None
    if t == 'bool':
        return True
    if t == 'int':
        return int(spec['v'])
    if t == 'float':
        return float(spec['v'])
    if t == 'complex':
        return complex(*spec['v'])
    if t == 'str':
        return spec['v']
    if t == 'npscalar':
        return np.dtype(spec['dt']).type(spec['v'])
    if t == 'array':
        rng = np.random.default_rng(spec['seed'])
        shape = tuple(spec['shape'])
        dt = np.dtype(spec['dt'])
        if dt == np.uint8 and shape == ():
            dt = np.dtype('int64')  # h5py refuses some 0-d uint8 arrays ("VLEN strings do not support embedded NULLs"): the save fails cleanly
        if dt.kind == 'U':
            a = np.array(rng.integers(0, 100, size=shape).astype(str), dtype=dt)
        elif dt.kind == 'c':
            a = (rng.normal(size=shape) + 1j * rng.normal(size=shape)).astype(dt)
        elif dt.kind == 'b':
            a = rng.integers(0, 2, size=shape).astype(bool)
        else:
            a = (rng.normal(size=shape) * 10).astype(dt)
        if spec['order'] == 'F':
            a = np.asfortranarray(a)
        elif spec['order'] == 'T' and a.ndim >= 2:
            a = a.T
        built.append(a)
        return a
    if t == 'masked':
        rng = np.random.default_rng(spec['seed'])
        data = (rng.integers(0, 4, size=spec['n'])).astype(spec['dt'])
        mask = rng.integers(0, 2, size=spec['n']).astype(bool)
        a = np.ma.MaskedArray(data, mask=np.ma.nomask if spec['nomask'] else mask)
        if spec['hit_fill'] and spec['n']:
            a.data[0] = a.fill_value  # an unmasked or masked entry equal to the fill value
        built.append(a)
        return a
    if t == 'range':
        return range(*spec['v'])
    if t == 'dtype':
        if spec['v'] == 'struct':
            return np.dtype([('a', np.int32, 8), ('b', np.float64, 5)])
        return np.dtype(spec['v'])
    if t == 'ref':
        if not built:
            return None
        return built[spec['i'] % len(built)]
    if t == 'set':
        return set(spec['c'])
    if t == 'list':
        out = []
        built.append(out)
        for c in spec['c']:
            out.append(build_tree(c, built))
        return out
    if t == 'tuple':
        out = tuple(build_tree(c, built) for c in spec['c'])
        if len(out):
            built.append(out)
        return out
    if t == 'dict':
        out = {}
        built.append(out)
        for i, c in enumerate(spec['c']):
            mode = spec.get('keys', 'simple')
            key = {'simple': 'key%d' % i, 'general': i, 'mixed': ['a', 1, (1, 2), 'b/c'][i % 4] if i < 4 else i,
                   'tuplekeys': (i, 'x')}[mode]
            out[key] = build_tree(c, built)
        return out
    raise ValueError(t)


def depth_of(spec):
    return 1 + max([depth_of(c) for c in spec.get('c', []) if isinstance(c, dict)] + [0]) if isinstance(spec, dict) else 0


def run_containers(spec):
    with warnings.catch_warnings():
        warnings.simplefilter('ignore')
        built = []
        obj = build_tree(spec['tree'], built)
        cyc = False
        if spec['cycle']:
            lists = [b for b in built if isinstance(b, list)]
            dicts = [b for b in built if isinstance(b, dict)]
            if lists:
                lists[-1].append(lists[0])  # (self-)reference into an enclosing list
                cyc = True
            elif dicts:
                dicts[-1]['self'] = dicts[0]
                cyc = True
        data = {'root': obj, 'again': obj if isinstance(obj, (list, dict, np.ndarray)) else None}
        tags = dict(how=spec['how'])
        loaded = roundtrip(data, spec['how'])
        obs_equal(data, loaded, 'data', set())
        shared = check_sharing(data, loaded, tags)
    d = depth_of(spec['tree'])
    return {'nontrivial': d >= 2 or shared > 0 or cyc, 'classes': ['how:' + spec['how'], 'depth:%d' % min(d, 5)] + (['shared'] if shared else []) + (['cyclic'] if cyc else [])}


# ------------------------------------------------------------------------------------------------
# exportable classes

def discover():
    """all classes of the tenpy package defining or inheriting save_hdf5"""
    import tenpy
    found = {}
    for m in pkgutil.walk_packages(tenpy.__path__, 'tenpy.'):
        if any(x in m.name for x in ('.__main__', 'tenpy.tools.docs', '_npc_helper')):
            continue
        try:
            mod = importlib.import_module(m.name)
        except Exception:
            continue
        for name, cls in vars(mod).items():
            if isinstance(cls, type) and cls.__module__ == mod.__name__ and hasattr(cls, 'save_hdf5'):
                found[cls.__module__ + '.' + cls.__qualname__] = cls
    return found


OBJECT_KINDS = ['ChargeInfo', 'DipolarChargeInfo', 'LegCharge', 'LegPipe', 'Array', 'Site', 'GroupedSite', 'MPS', 'MPS_infinite', 'MPS_segment', 'MPO',
                'Lattice', 'IrregularLattice', 'HelicalLattice', 'MultiSpeciesLattice', 'Model', 'TermList', 'OnsiteTerms', 'CouplingTerms',
                'MultiCouplingTerms', 'ExponentiallyDecayingTerms', 'TruncationError', 'Config', 'Hdf5Exportable', 'list_of_legs', 'two_MPS', 'SimpleLattice',
                'TrivialLattice', 'UniformMPS', 'PurificationMPS', 'MomentumMPS']


@st.composite
def object_specs(draw, tier):
    kind = draw(st.sampled_from(OBJECT_KINDS))
    spec = {'kind': kind, 'seed': draw(st.integers(0, 10 ** 5)), 'how': draw(st.sampled_from(['hdf5', 'hdf5', 'hdf5', 'pickle'])),
            'fmt': draw(st.sampled_from([None, 'blocks', 'compact', 'flat'])), 'cfg': draw(st.integers(0, len(M.SITE_CFGS) - 1)), 'L': draw(st.integers(2, 5))}
    if kind in ('LegCharge', 'LegPipe', 'Array', 'list_of_legs', 'ChargeInfo'):
        spec['pool'] = draw(gen.pool_specs(max_charges=2, max_legs=4))
        spec['tensor'] = draw(gen.tensor_specs(len(spec['pool']['legs']), max_rank=3))
    return spec


def build_object(spec):
    import tenpy.linalg.np_conserved as npc
    from tenpy.linalg import charges
    from tenpy.networks import site as S, mps, mpo, terms
    from tenpy.networks.mps import MPS
    from tenpy.models import lattice
    from tenpy.linalg.truncation import TruncationError
    from tenpy.tools.params import Config
    from tenpy.tools import hdf5_io
    kind = spec['kind']
    rng = np.random.default_rng(spec['seed'])
    if kind in ('LegCharge', 'LegPipe', 'Array', 'list_of_legs', 'ChargeInfo'):
        chinfo, legs = gen.build_pool(spec['pool'])
        if kind == 'ChargeInfo':
            return chinfo
        if kind == 'LegCharge':
            return legs[0]
        if kind == 'list_of_legs':
            # several distinct legs (and one of them twice) in one file
            return {'legs': list(legs) + [legs[0]], 'conj': [l.conj() for l in legs]}
        if kind == 'LegPipe':
            return charges.LegPipe(legs[:max(1, min(3, len(legs)))], qconj=int(rng.choice([-1, 1])), sort=bool(rng.integers(0, 2)), bunch=bool(rng.integers(0, 2)))
        arr = gen.build_tensor(chinfo, legs, spec['tensor'], spec['pool']['legs'])[0]
        return arr
    if kind == 'DipolarChargeInfo':
        from tenpy.linalg.charges import DipolarChargeInfo
        m = [1, 2, 3][int(rng.integers(0, 3))]
        return DipolarChargeInfo([m, m], ['N', 'P'], charge_idcs=[0], dipole_idcs=[1], dipole_dims=[0])
    site = M.make_site(M.SITE_CFGS[spec['cfg']])
    L = spec['L']
    if kind == 'Site':
        return site
    if kind == 'GroupedSite':
        return S.GroupedSite([site, site], charges=['same', 'drop', 'independent'][spec['seed'] % 3])
    if kind in ('MPS', 'two_MPS', 'MPSEnvironment'):
        sites = [site] * min(L, 4 if site.dim > 2 else 5)
        vec, q = M.random_state(sites, spec['seed'])
        psi = MPS.from_full(sites, M.to_npc_state(sites, vec, q), form=['B', 'A', 'C'][spec['seed'] % 3], unit_cell_width=len(sites))
        psi.norm = 0.5
        if kind == 'two_MPS':
            return {'a': psi, 'b': psi.copy(), 'again': psi}
        if kind == 'MPSEnvironment':
            env = mps.MPSEnvironment(psi, psi)
            env.get_LP(len(sites) - 1, store=True)
            return env
        return psi
    if kind in ('MPS_infinite', 'MPS_segment', 'UniformMPS'):
        sites = [site] * 2
        idx = [int(rng.integers(0, site.dim)) for _ in sites]
        psi = MPS.from_product_state(sites, idx, bc='infinite', permute=False, unit_cell_width=2)
        if kind == 'MPS_segment':
            return psi.extract_segment(0, 3)
        if kind == 'UniformMPS':
            from tenpy.networks.uniform_mps import UniformMPS
            return UniformMPS.from_MPS(psi)
        return psi
    if kind == 'MomentumMPS':
        from tenpy.networks.uniform_mps import UniformMPS
        from tenpy.networks.momentum_mps import MomentumMPS
        sites = [site] * 2
        idx = [int(rng.integers(0, site.dim)) for _ in sites]
        psi = MPS.from_product_state(sites, idx, bc='infinite', permute=False, unit_cell_width=2)
        u = UniformMPS.from_MPS(psi)
        Xs = [u.get_B(i, 'AC').copy() for i in range(2)]
        return MomentumMPS(Xs, u, float(rng.uniform(0, 1)), n_sites=1)
    if kind == 'PurificationMPS':
        from tenpy.networks.purification_mps import PurificationMPS
        return PurificationMPS.from_infiniteT([site] * 3, bc='finite', unit_cell_width=3)
    if kind in ('MPO', 'Model', 'OnsiteTerms', 'CouplingTerms', 'MultiCouplingTerms', 'ExponentiallyDecayingTerms', 'TermList'):
        from checks import c10
        cspec = {'lat': ['Chain', [3]], 'bc': ['open'], 'order': 'default', 'perm_seed': 0, 'cfg': [0, 1, 2, 4, 7, 8, 9, 10, 12, 14][spec['cfg'] % 10],
                 'terms': [{'kind': k, 'a': [int(x) for x in rng.integers(0, 10 ** 4, size=6)], 'strength': 'float', 'plus_hc': bool(rng.integers(0, 2))}
                           for k in ['onsite', 'coupling', 'multi', 'exp']], 'explicit_plus_hc': False, 'reps': 0}
        model = c10_model(cspec)
        if kind == 'MPO':
            return model.calc_H_MPO()
        if kind == 'OnsiteTerms':
            return model.all_onsite_terms()
        if kind == 'CouplingTerms':
            ct = terms.CouplingTerms(3)
            ct.add_coupling_term(0.5, 0, 2, 'Id', 'Id', 'Id')
            ct.add_coupling_term(1.5j, 1, 2, 'Id', 'Id')
            return ct
        if kind == 'MultiCouplingTerms':
            return model.all_coupling_terms()
        if kind == 'ExponentiallyDecayingTerms':
            return model.exp_decaying_terms
        if kind == 'TermList':
            return model.all_coupling_terms().to_TermList() + model.all_onsite_terms().to_TermList()
        from tenpy.models.tf_ising import TFIChain
        from tenpy.models.xxz_chain import XXZChain
        return [TFIChain({'L': 3, 'bc_MPS': ['finite', 'infinite'][spec['seed'] % 2], 'conserve': [None, 'parity'][spec['seed'] // 2 % 2]}),
                XXZChain({'L': 4, 'Jz': 0.3})][spec['seed'] % 2]
    if kind == 'Lattice':
        cls = [lattice.Chain, lattice.Ladder, lattice.Square, lattice.Honeycomb, lattice.Kagome, lattice.Triangular][spec['seed'] % 6]
        args = [2] if cls in (lattice.Chain, lattice.Ladder) else [2, 2]
        inf = spec['seed'] // 2 % 2
        return cls(*args, site, bc='periodic' if (spec['seed'] % 2 or inf) else 'open', bc_MPS=['finite', 'infinite'][inf],
                   order=['default', 'snake'][spec['seed'] // 4 % 2])
    if kind == 'SimpleLattice':
        return lattice.SimpleLattice([2, 3], site, bc=['open', 'periodic'])
    if kind == 'TrivialLattice':
        return lattice.TrivialLattice([site] * 3)
    if kind == 'IrregularLattice':
        reg = lattice.Chain(4, site)
        return lattice.IrregularLattice(reg, remove=[[1, 0]])
    if kind == 'HelicalLattice':
        reg = lattice.Square(2, 3, site, order='Cstyle', bc=['periodic', -1], bc_MPS='infinite')
        return lattice.HelicalLattice(reg, 2)
    if kind == 'MultiSpeciesLattice':
        sp = lattice.Chain(3, site)
        return lattice.MultiSpeciesLattice(sp, [site, site], ['a', 'b'])
    if kind == 'TruncationError':
        return TruncationError(float(rng.uniform(0, 1e-3)), float(rng.uniform(0.9, 1)))
    if kind == 'Config':
        c = Config({'a': 1, 'sub': {'b': 2.5, 'c': [1, 2]}, 'arr': np.arange(3)}, 'name')
        c.get('a', 0)
        return c
    if kind == 'Hdf5Exportable':
        e = hdf5_io.Hdf5Exportable()
        e.some_attr = 'something'
        e.arr = np.arange(4.)
        e.shared = e.arr
        return e
    raise ValueError(kind)


def c10_model(cspec):
    """CouplingModel with the term program of checks.c10 (finite chain)"""
    from checks import c10
    from tenpy.models.model import CouplingModel
    site = M.make_site(M.SITE_CFGS[cspec['cfg']])
    lat = c10.build_lattice(cspec, site)
    model = CouplingModel(lat)
    bos = sorted(n for n in site.opnames if not site.op_needs_JW(n) and not n.startswith('JW') and n != 'Id')
    neutral = [n for n in bos if not np.any(site.get_op(n).qtotal)]
    model.add_onsite(0.3, 0, neutral[0])
    model.add_coupling(0.5, 0, bos[0], 0, site.get_hc_op_name(bos[0]), [1], plus_hc=True)
    model.add_multi_coupling(0.25, [(neutral[0], [0], 0), (neutral[-1], [1], 0), (neutral[0], [2], 0)])
    model.add_exponentially_decaying_coupling(0.1, 0.5, neutral[0], neutral[-1])
    return model


def run_objects(spec):
    with warnings.catch_warnings():
        warnings.simplefilter('ignore')
        try:
            obj = build_object(spec)
        except gen.Unbuildable if hasattr(gen, 'Unbuildable') else () as e:  # pragma: no cover
            raise Skip()
        fmt = spec['fmt']
        if fmt == 'flat' and spec['kind'] != 'LegCharge':
            fmt = 'compact'  # documented: "flat" is insufficient to recover the exact blocks, i.e. anything holding Arrays
        spec = dict(spec, fmt=fmt)
        tags = dict(kind=spec['kind'], how=spec['how'], fmt=str(spec['fmt']))
        data = {'obj': obj, 'again': obj}
        try:
            loaded = roundtrip(data, spec['how'], spec['fmt'])
        except Violation:
            raise
        except Exception as e:
            from vf.core import innermost_pkg_frame
            where, in_tenpy = innermost_pkg_frame(e)
            raise Violation('roundtrip-raises', '%s: %s (%s)' % (type(e).__name__, str(e)[:150], where), exc=type(e).__name__, **tags)
        try:
            if fmt == 'flat' and spec['how'] == 'hdf5':
                a, b = data['obj'], loaded['obj']
                b.test_sanity()
                require(type(b) is type(a) and a.qconj == b.qconj and a.ind_len == b.ind_len and np.array_equal(a.to_qflat(), b.to_qflat()) and a.chinfo == b.chinfo,
                        'roundtrip-differs', 'flat format: charges of the indices differ', cls='LegCharge')
            else:
                obs_equal(data, loaded, 'data', set())
        except Violation as v:
            v.tags.update(tags) if hasattr(v, 'tags') else None
            raise
        shared = check_sharing(data, loaded, tags)
    return {'nontrivial': True, 'classes': ['kind:' + spec['kind'], 'how:' + spec['how'], 'fmt:%s' % spec['fmt']] + (['shared'] if shared else [])}


def enum_discovery(tier, shard, nshards, seed):
    return [{'discover': True}] if shard == 0 else []


COVERED = {'ChargeInfo', 'DipolarChargeInfo', 'LegCharge', 'LegPipe', 'Array', 'Site', 'GroupedSite', 'MPS', 'MPO', 'Lattice', 'IrregularLattice', 'HelicalLattice',
           'MultiSpeciesLattice', 'TermList', 'OnsiteTerms', 'CouplingTerms', 'MultiCouplingTerms', 'ExponentiallyDecayingTerms', 'TruncationError', 'Config',
           'Hdf5Exportable', 'SimpleLattice', 'TrivialLattice', 'UniformMPS', 'MPSEnvironment', 'PurificationMPS', 'MomentumMPS', 'CouplingModel', 'Model', 'MPOModel',
           'NearestNeighborModel', 'CouplingMPOModel'}


def run_discovery(spec):
    found = discover()
    names = sorted(found)
    uncovered = []
    for n in names:
        cls = found[n]
        if not any(base.__name__ in COVERED for base in cls.__mro__):
            uncovered.append(n)
    return {'nontrivial': True, 'classes': ['discovered:%d' % len(names)] + ['uncovered:' + u for u in uncovered]}


SUBCHECKS = [
    Sub('containers', container_specs, run_containers, quick=1200, thorough=100000),
    Sub('objects', object_specs, run_objects, quick=700, thorough=40000),
    Sub('discovery', None, run_discovery, quick=1, thorough=1, enumerate_fn=enum_discovery),
]
