"""C07 - An MPS always denotes the state it was built from."""
import itertools
import warnings

import numpy as np
from hypothesis import strategies as st

from vf.core import Sub, Violation, require, Skip
from vf import mps as M

LEVEL = 'exploration'
RULE = ('Generated chains (L=2-6, Hilbert dimension <= 2^11) of all predefined site types incl. heterogeneous chains with common charges; '
        'constructors from_full (random vector in a random charge sector, all forms, normalize, segment with outer_S), from_product_state '
        '(ints / labels / local vectors, permute, form), from_Bflat (random non-canonical tensors) + canonical_form, from_singlets (random '
        'matchings incl. crossing pairs, lonely sites), from_product_mps_covering (local states on 1-3 sites placed by arbitrary, '
        'non-monotone index maps), followed by histories of convert_form (per-site lists) / canonical_form / get_B / get_theta. Oracle: '
        'state vector rebuilt from the RAW stored tensors with the documented exponent convention equals the input state incl. psi.norm; '
        'norm_test ~ 0; stored S = Schmidt coefficients of the dense state at every cut; entanglement entropies / spectrum; total charge. '
        'Non-trivial: some bond dimension >= 2 (histories: >= 2 form changes). Distinct = distinct canonical JSON spec.')
ASSUMPTIONS = ['site operator matrices / charges as validated by C12', 'numpy SVD for Schmidt values']

FORMS = ['A', 'B', 'C', 'G', None]


def check_state(psi, ref, tags, tol=1e-10, phase_free=False):
    """psi (MPS, canonical form) denotes the dense state ref (ndarray with one axis per site), incl. norm."""
    got = M.mps_to_dense(psi)
    require(got.shape == ref.shape, 'dense-shape', '%s vs %s' % (got.shape, ref.shape), **tags)
    if phase_free:
        ov = np.vdot(ref, got)
        if abs(ov) > 1e-14:
            got = got * (abs(ov) / ov)
    err = np.linalg.norm(got - ref)
    require(err <= tol * max(1., np.linalg.norm(ref)), 'state-mismatch', '|psi_mps - psi_ref| = %r (norms %r, %r, psi.norm=%r)' % (
        err, np.linalg.norm(got), np.linalg.norm(ref), psi.norm), **tags)


def check_canonical(psi, ref, tags, tol=1e-9):
    """Singular values, entropies, norm_test, total charge against the dense state."""
    dims = list(ref.shape)
    L = len(dims)
    nrm = np.linalg.norm(ref)
    nt = psi.norm_test()
    require(np.max(np.abs(nt)) < 1e-9, 'norm_test', str(nt), **tags)
    ent = psi.entanglement_entropy()
    ent2 = psi.entanglement_entropy(n=2)
    spec = psi.entanglement_spectrum()
    for b in range(1, L):
        sref = M.schmidt_values(ref / nrm, dims, b)
        sref = sref[sref > 1e-13]
        S = np.asarray(psi.get_SL(b))
        require(np.all(S >= 0), 'S-negative', '', **tags)
        Sg = np.sort(S[S > 1e-13])[::-1]
        require(len(Sg) == len(sref) and np.allclose(Sg, sref, atol=tol), 'S-not-schmidt-values', 'bond %d: %s vs %s' % (b, Sg, sref), bond=b, **tags)
        require(abs(ent[b - 1] - M.entropy(sref)) < 1e-8, 'entanglement_entropy', 'bond %d: %r vs %r' % (b, ent[b - 1], M.entropy(sref)), **tags)
        require(abs(ent2[b - 1] - M.entropy(sref, 2)) < 1e-8, 'renyi-entropy', 'bond %d' % b, **tags)
        sp = np.sort(np.exp(-0.5 * np.asarray(spec[b - 1])))[::-1]
        sp = sp[sp > 1e-13]
        require(len(sp) == len(sref) and np.allclose(sp, sref, atol=tol), 'entanglement_spectrum', 'bond %d' % b, **tags)
    require(abs(np.linalg.norm(psi.get_SL(1)) - 1) < 1e-10 if L > 1 else True, 'S-not-normalized', '', **tags)


@st.composite
def full_specs(draw, tier):
    chain = draw(M.chain_specs(2, 6))
    return {'chain': chain, 'seed': draw(st.integers(0, 10 ** 6)), 'form': draw(st.sampled_from(FORMS)), 'normalize': draw(st.booleans()),
            'scale': draw(st.sampled_from([1.0, 0.5, 3.0])), 'cplx': draw(st.booleans()),
            'history': draw(st.lists(st.tuples(st.sampled_from(['convert', 'convert_list', 'canonical', 'get_B', 'get_theta', 'copy']), st.integers(0, 10 ** 4)), max_size=5))}


def run_full(spec):
    from tenpy.networks.mps import MPS
    sites = M.build_sites(spec['chain'])
    L = len(sites)
    vec, q = M.random_state(sites, spec['seed'], cplx=spec['cplx'])
    vec = vec * spec['scale']
    tags = dict(ctor='from_full')
    with warnings.catch_warnings():
        warnings.simplefilter('ignore')
        a = M.to_npc_state(sites, vec, q)
        psi = MPS.from_full(sites, a, form=spec['form'], normalize=spec['normalize'])
        psi.test_sanity()
        ref = vec / np.linalg.norm(vec) if spec['normalize'] else vec
        require(abs(psi.norm - np.linalg.norm(ref)) < 1e-10, 'psi.norm', '%r vs %r' % (psi.norm, np.linalg.norm(ref)), **tags)
        check_state(psi, ref, tags)
        check_canonical(psi, ref, tags)
        # documented forms
        f = spec['form']
        expf = [MPS._valid_forms[f]] * L if f is not None else [MPS._valid_forms['A']] + [MPS._valid_forms['B']] * (L - 1)
        require([tuple(x) for x in psi.form] == [tuple(x) for x in expf], 'form', '%s vs %s' % (psi.form, expf), **tags)
        tq = psi.get_total_charge()
        require(np.array_equal(sites[0].leg.chinfo.make_valid(tq), sites[0].leg.chinfo.make_valid(q)), 'total-charge', '%s vs %s' % (tq, q), **tags)
        nform = run_history(psi, ref, spec['history'], tags)
    return {'nontrivial': max(psi.chi) >= 2 if L > 1 else False, 'classes': ['form:%s' % spec['form'], 'hetero' if len(set(spec['chain']['cfg'])) > 1 else 'homo',
                                                                          'history%d' % min(nform, 2)]}


def run_history(psi, ref, history, tags):
    """convert_form / canonical_form / get_B / get_theta must not change the state or its recorded norm."""
    from tenpy.networks.mps import MPS
    L = psi.L
    nform = 0
    dims = list(ref.shape)
    for kind, arg in history:
        rng = np.random.default_rng(arg)
        t = dict(tags, step=kind)
        if kind == 'convert':
            f = ['A', 'B', 'C', 'G'][arg % 4]
            psi.convert_form(f)
            nform += 1
        elif kind == 'convert_list':
            fl = [['A', 'B', 'C', 'G', 'Th'][int(x)] for x in rng.integers(0, 5, size=L)]
            psi.convert_form(fl)
            require([tuple(x) for x in psi.form] == [MPS._valid_forms[x] for x in fl], 'form-after-convert', '', **t)
            nform += 1
        elif kind == 'canonical':
            n0 = psi.norm
            psi.canonical_form(renormalize=bool(arg % 2)) if arg % 3 else psi.canonical_form()
            if arg % 3 and arg % 2 == 0:
                # renormalize=False: the norm is not tracked separately but stays in the state -> psi.norm * tensors is still ref
                pass
            nform += 1
        elif kind == 'get_B':
            i = arg % L
            f = ['A', 'B', 'C', 'G', 'Th'][(arg // 7) % 5]
            B = psi.get_B(i, f)
            nuL, nuR = MPS._valid_forms[f]
            # B = s_i^nuL Gamma_i s_{i+1}^nuR with Gamma from the raw tensors
            T = psi._B[i]
            Traw = np.transpose(T.to_ndarray(), [T.get_leg_index('vL'), T.get_leg_index('p'), T.get_leg_index('vR')])
            fl, fr = psi.form[i]
            sL, sR = np.asarray(psi.get_SL(i)), np.asarray(psi.get_SR(i))
            exp = Traw * (sL ** (nuL - fl))[:, None, None] * (sR ** (nuR - fr))[None, None, :]
            Bd = np.transpose(B.to_ndarray(), [B.get_leg_index('vL'), B.get_leg_index('p'), B.get_leg_index('vR')])
            require(np.allclose(Bd, exp, atol=1e-10), 'get_B-form', 'site %d form %s' % (i, f), form=f, **t)
            continue
        elif kind == 'get_theta':
            n = 1 + arg % min(3, L)
            i = (arg // 5) % (L - n + 1)
            th = psi.get_theta(i, n)
            # theta = s_i Gamma_i s Gamma ... s_{i+n}: the wave function in the Schmidt bases of the outer bonds
            full = ref / np.linalg.norm(ref)
            Dl = int(np.prod(dims[:i]))
            Dr = int(np.prod(dims[i + n:]))
            mid = int(np.prod(dims[i:i + n]))
            mat = full.reshape(Dl, mid, Dr)
            thd = np.transpose(th.to_ndarray(), [th.get_leg_index('vL')] + [th.get_leg_index('p%d' % k) for k in range(n)] + [th.get_leg_index('vR')])
            thd = thd.reshape(thd.shape[0], mid, thd.shape[-1])
            # reduced density matrix on the n sites must agree
            rho_ref = np.einsum('lar,lbr->ab', mat, mat.conj())
            rho_th = np.einsum('lar,lbr->ab', thd, thd.conj())
            require(np.allclose(rho_ref, rho_th, atol=1e-9), 'get_theta-rho', 'sites %d..%d' % (i, i + n - 1), **t)
            require(abs(np.linalg.norm(thd) - 1) < 1e-9, 'get_theta-norm', '', **t)
            continue
        elif kind == 'copy':
            cp = psi.copy()
            cp.convert_form('A')
            cp._B[0] *= 2.0
            # the copy is independent
        psi.test_sanity()
        check_state(psi, ref, t)
        if all(f is not None and abs(f[0] + f[1] - 1) < 1e-12 for f in psi.form):
            check_canonical(psi, ref, t)
    return nform


# ------------------------------------------------------------------------------------------------


@st.composite
def product_specs(draw, tier):
    chain = draw(M.chain_specs(1, 7))
    L = len(chain['cfg'])
    return {'chain': chain, 'kind': [draw(st.sampled_from(['int', 'label', 'vec'])) for _ in range(L)], 'seed': draw(st.integers(0, 10 ** 6)),
            'form': draw(st.sampled_from(['A', 'B', 'C', 'G'])), 'permute': draw(st.booleans()), 'bc': draw(st.sampled_from(['finite', 'finite', 'segment'])),
            'history': draw(st.lists(st.tuples(st.sampled_from(['convert', 'convert_list', 'canonical', 'get_B']), st.integers(0, 10 ** 4)), max_size=3))}


def run_product(spec):
    from tenpy.networks.mps import MPS
    sites = M.build_sites(spec['chain'])
    L = len(sites)
    rng = np.random.default_rng(spec['seed'])
    tags = dict(ctor='from_product_state')
    p_state = []
    local = []
    cplx = False
    with warnings.catch_warnings():
        warnings.simplefilter('ignore')
        for k, s in enumerate(sites):
            kind = spec['kind'][k]
            perm = np.asarray(s.perm)
            if kind == 'int':
                i = int(rng.integers(0, s.dim))  # meaning: index in the conserve=None basis if permute else in the site's own basis
                p_state.append(i)
                own = int(np.nonzero(perm == i)[0][0]) if spec['permute'] else i
                v = np.zeros(s.dim)
                v[own] = 1
            elif kind == 'label':
                labs = sorted(s.state_labels)
                lab = labs[int(rng.integers(0, len(labs)))]
                p_state.append(lab)
                v = np.zeros(s.dim)
                v[s.state_labels[lab]] = 1
            else:
                # local superposition inside one charge sector of the site
                q = M.site_charges(s)
                j = int(rng.integers(0, s.dim))
                mask = np.all(q == q[j][None, :], axis=1) if q.shape[1] else np.ones(s.dim, dtype=bool)
                v = np.where(mask, rng.normal(size=s.dim), 0.)
                v = v / np.linalg.norm(v)
                if spec['permute']:
                    w = np.zeros(s.dim)
                    w[perm] = v  # given in the conserve=None basis: w[perm[own]] = v[own]
                    p_state.append(w)
                else:
                    p_state.append(v)
            local.append(v)
        psi = MPS.from_product_state(sites, p_state, bc=spec['bc'], form=spec['form'], permute=spec['permute'])
        psi.test_sanity()
        ref = local[0]
        for v in local[1:]:
            ref = np.multiply.outer(ref, v)
        got = M.mps_to_dense(psi)
        got = got.reshape(ref.shape)
        require(np.allclose(got, ref, atol=1e-12), 'state-mismatch', 'product state', **tags)
        require(all(c == 1 for c in psi.chi), 'chi', str(psi.chi), **tags)
        if spec['bc'] == 'finite' and L >= 2:
            nform = run_history(psi, ref, spec['history'], tags)
    return {'nontrivial': any(k == 'vec' for k in spec['kind']) or spec['permute'], 'classes': ['bc:' + spec['bc']]}


# ------------------------------------------------------------------------------------------------


@st.composite
def bflat_specs(draw, tier):
    chain = draw(M.chain_specs(2, 5, cfgs=[2, 9]))  # sites without charges: arbitrary tensors are allowed
    L = len(chain['cfg'])
    chis = [1] + [draw(st.integers(1, 3)) for _ in range(L - 1)] + [1]
    return {'chain': chain, 'chi': chis, 'seed': draw(st.integers(0, 10 ** 6)), 'cplx': draw(st.booleans()),
            'history': draw(st.lists(st.tuples(st.sampled_from(['convert', 'convert_list', 'canonical', 'get_B', 'get_theta']), st.integers(0, 10 ** 4)), max_size=4))}


def run_bflat(spec):
    from tenpy.networks.mps import MPS
    sites = M.build_sites(spec['chain'])
    L = len(sites)
    rng = np.random.default_rng(spec['seed'])
    tags = dict(ctor='from_Bflat')
    Bs = []
    for k, s in enumerate(sites):
        shape = (s.dim, spec['chi'][k], spec['chi'][k + 1])
        B = rng.normal(size=shape) + (1j * rng.normal(size=shape) if spec['cplx'] else 0)
        Bs.append(B)
    ref = None
    for B in Bs:
        T = np.transpose(B, [1, 0, 2])
        ref = T if ref is None else np.tensordot(ref, T, axes=(ref.ndim - 1, 0))
    ref = ref.reshape(ref.shape[1:-1])
    with warnings.catch_warnings():
        warnings.simplefilter('ignore')
        from tenpy.linalg import np_conserved as npc
        # from_Bflat canonicalizes with the documented default renormalize=True (norm change discarded): compare as rays
        psi2 = MPS.from_Bflat(sites, Bs, form=None)
        psi2.test_sanity()
        require(abs(psi2.norm - 1) < 1e-12, 'psi.norm-after-from_Bflat', repr(psi2.norm), **tags)
        if max(spec['chi']) > 1:
            check_state(psi2, ref / np.linalg.norm(ref), tags, tol=1e-9)
            check_canonical(psi2, ref, tags)
        else:
            check_state(psi2, ref, tags, tol=1e-9)  # bond dimension 1: tensors are stored as given
        # the public constructor with non-canonical tensors + canonical_form(renormalize=False): the norm is tracked in psi.norm
        arrs = [npc.Array.from_ndarray(B, [s.leg, npc.LegCharge.from_trivial(B.shape[1], s.leg.chinfo), npc.LegCharge.from_trivial(B.shape[2], s.leg.chinfo, -1)],
                                       labels=['p', 'vL', 'vR']) for B, s in zip(Bs, sites)]
        SVs = [np.ones(c) / np.sqrt(c) for c in spec['chi']]
        psi = MPS(sites, arrs, SVs, form=None)
        psi.canonical_form(renormalize=False)
        psi.test_sanity()
        check_state(psi, ref, tags, tol=1e-9)
        check_canonical(psi, ref, tags)
        run_history(psi, ref, spec['history'], tags)
    return {'nontrivial': max(spec['chi']) >= 2}


# ------------------------------------------------------------------------------------------------


@st.composite
def covering_specs(draw, tier):
    cfg = draw(st.sampled_from([0, 1, 2, 4, 10, 16]))  # non-fermionic sites
    L = draw(st.integers(2, 7))
    # random partition of range(L) into groups of size 1-3, in random order within and between groups
    perm = draw(st.permutations(list(range(L))))
    groups = []
    k = 0
    while k < L:
        n = draw(st.integers(1, min(3, L - k)))
        groups.append(list(perm[k:k + n]))
        k += n
    return {'cfg': cfg, 'L': L, 'groups': groups, 'seed': draw(st.integers(0, 10 ** 6)), 'singlets': draw(st.booleans()) and cfg in (0, 1, 2)}


def run_covering(spec):
    from tenpy.networks.mps import MPS
    site = M.make_site(M.SITE_CFGS[spec['cfg']])
    L = spec['L']
    sites = [site] * L
    crossing = any(max(g) - min(g) + 1 > len(g) for g in spec['groups'])
    tags = dict(ctor='from_product_mps_covering' if not spec['singlets'] else 'from_singlets', crossing=bool(crossing),
                charges=bool(site.leg.chinfo.qnumber > 0))
    rng = np.random.default_rng(spec['seed'])
    dims = [site.dim] * L
    with warnings.catch_warnings():
        warnings.simplefilter('ignore')
        if spec['singlets']:
            pairs = [tuple(int(x) for x in g[:2]) for g in spec['groups'] if len(g) >= 2]
            used = set(x for p in pairs for x in p)
            lonely = [i for i in range(L) if i not in used]
            lon_state = ['up', 'down'][spec['seed'] % 2]
            psi = MPS.from_singlets(site, L, pairs, lonely=lonely, lonely_state=lon_state)
            up, dn = site.state_labels['up'], site.state_labels['down']
            ref = np.zeros(dims, dtype=float)
            # product of singlets (|up down> - |down up>)/sqrt2 on (i, j), i the first entry of the pair
            for conf in itertools.product([0, 1], repeat=len(pairs)):
                idx = [None] * L
                amp = 1.0
                for (i, j), c in zip(pairs, conf):
                    idx[i], idx[j] = (up, dn) if c == 0 else (dn, up)
                    amp *= (1 if c == 0 else -1) / np.sqrt(2)
                for i in lonely:
                    idx[i] = site.state_labels[lon_state]
                ref[tuple(idx)] += amp
            psi.test_sanity()
            check_state(psi, ref, tags, tol=1e-10, phase_free=True)  # the documentation leaves the global sign open
            check_canonical(psi, ref, tags)
            # entropy = ln2 x number of pairs crossing the bond
            ent = psi.entanglement_entropy()
            for b in range(1, L):
                ncross = sum(1 for (i, j) in pairs if min(i, j) < b <= max(i, j))
                require(abs(ent[b - 1] - ncross * np.log(2)) < 1e-9, 'singlet-entropy', 'bond %d: %r vs %d ln2' % (b, ent[b - 1], ncross), **tags)
            nontriv = any(abs(i - j) > 1 for i, j in pairs) or len(pairs) >= 2
            return {'nontrivial': bool(nontriv), 'classes': ['singlets']}
        local = []
        ref = np.ones([1] * L)
        for g in spec['groups']:
            n = len(g)
            vec, q = M.random_state([site] * n, int(rng.integers(0, 10 ** 6)), cplx=False)
            if n == 1:
                lp = MPS.from_product_state([site], [vec], permute=False)
            else:
                lp = MPS.from_full([site] * n, M.to_npc_state([site] * n, vec, q), form='B')
            local.append(lp)
            # place axis k of vec at global site g[k]
            shape = [1] * L
            arr = vec
            order = np.argsort(g)
            arr = np.transpose(vec, order)
            for ax, gs in enumerate(sorted(g)):
                shape[gs] = site.dim
            ref = ref * arr.reshape(shape)
        try:
            psi = MPS.from_product_mps_covering(local, [list(g) for g in spec['groups']])
        except ValueError as e:
            raise Violation('unexpected-exception', 'ValueError: ' + str(e)[:200], exc='ValueError', **tags)
        psi.test_sanity()
        check_state(psi, ref, tags, tol=1e-10)
        check_canonical(psi, ref, tags)
    monotone = all(list(g) == sorted(g) for g in spec['groups'])
    crossing = any(max(g) - min(g) + 1 > len(g) for g in spec['groups'])
    return {'nontrivial': max(psi.chi) >= 2, 'classes': ['monotone' if monotone else 'non-monotone-index-map', 'crossing' if crossing else 'contiguous']}


# ------------------------------------------------------------------------------------------------
# segment boundary conditions: canonicalization must not change the state expressed in the ORIGINAL outer Schmidt bases


@st.composite
def segment_specs(draw, tier):
    chain = draw(M.chain_specs(4, 6, max_dim=2 ** 9))
    L = len(chain['cfg'])
    first = draw(st.integers(0, L - 3))
    last = draw(st.integers(first + 1, L - 1))
    return {'chain': chain, 'seed': draw(st.integers(0, 10 ** 6)), 'first': first, 'last': last,
            'steps': draw(st.lists(st.tuples(st.sampled_from(['canonical', 'local_op', 'local_op', 'convert']), st.integers(0, 10 ** 4)), min_size=1, max_size=4))}


def run_segment(spec):
    from tenpy.networks.mps import MPS
    from tenpy.linalg import np_conserved as npc
    sites = M.build_sites(spec['chain'])
    vec, q = M.random_state(sites, spec['seed'])
    tags = dict(ctor='segment')
    with warnings.catch_warnings():
        warnings.simplefilter('ignore')
        full = MPS.from_full(sites, M.to_npc_state(sites, vec, q), form='B')
        seg = full.extract_segment(spec['first'], spec['last'])
        seg.test_sanity()
        n = seg.L
        if n < 2:
            raise Skip()
        ref = M.mps_to_dense(seg)  # axes (vL, p..., vR); the dense tensor of the segment in its outer Schmidt bases
        segsites = seg.sites
        ncanon = 0
        for kind, arg in spec['steps']:
            rng = np.random.default_rng(arg)
            if kind == 'canonical':
                seg.canonical_form(renormalize=False)
                ncanon += 1
            elif kind == 'convert':
                seg.convert_form(['A', 'B', 'C'][arg % 3])
                continue
            else:
                i = arg % n
                s = segsites[i]
                # a random charge-neutral non-unitary on-site operator: diagonal in the site basis
                dvals = rng.uniform(0.5, 1.5, size=s.dim)
                op = npc.diag(dvals, s.leg, labels=['p', 'p*'])
                seg.apply_local_op(i, op, unitary=False, renormalize=False)
                shape = [1] * ref.ndim
                shape[1 + i] = s.dim
                ref = ref * dvals.reshape(shape)
                ncanon += 1
            seg.test_sanity()
            got = M.mps_to_dense(seg)
            UL, VR = seg.segment_boundaries
            if UL is not None:
                u = np.transpose(UL.to_ndarray(), [UL.get_leg_index('vL'), UL.get_leg_index('vR')])
                v = np.transpose(VR.to_ndarray(), [VR.get_leg_index('vL'), VR.get_leg_index('vR')])
                got = np.tensordot(u, got, axes=(1, 0))
                got = np.tensordot(got, v, axes=(got.ndim - 1, 0))
            err = np.linalg.norm(got - ref)
            require(err <= 1e-9 * max(1., np.linalg.norm(ref)), 'segment-state-changed',
                    'after %s (#%d): |U_L psi V_R - psi_ref| = %r' % (kind, ncanon, err), step=kind, **tags)
            nt = seg.norm_test()
            require(np.max(np.abs(nt)) < 1e-8, 'norm_test', str(nt), **tags)
    return {'nontrivial': ncanon >= 2 and max(seg.chi) >= 2, 'classes': ['ncanon%d' % min(ncanon, 3)]}


SUBCHECKS = [
    Sub('from_full', full_specs, run_full, quick=700, thorough=40000),
    Sub('from_product_state', product_specs, run_product, quick=500, thorough=20000),
    Sub('from_Bflat', bflat_specs, run_bflat, quick=400, thorough=20000),
    Sub('covering', covering_specs, run_covering, quick=500, thorough=30000),
    Sub('segment', segment_specs, run_segment, quick=400, thorough=20000),
]
