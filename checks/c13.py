"""C13 - Variational ground-state search is sound and converges on small systems."""
import warnings

import numpy as np
from hypothesis import strategies as st

from vf.core import Sub, Violation, require, Skip
from vf import mps as M
from checks import c14

LEVEL = 'exploration'
RULE = ('Generated predefined models of C10/C14 (TFI, XXZ, spin-1/2, spin-1, fermion, boson chains, SpinChainNNN2; random parameters and '
        'conserve options) on finite chains of 3-8 sites, random initial product states (i.e. random charge sectors), engine in '
        '{TwoSite, SingleSite}DMRG, mixer in {None, True, DensityMatrixMixer, SubspaceExpansion} with generated amplitude / decay / '
        'disable_after, diag_method in {default, lanczos, arpack, ED_block, ED_all}, lanczos E_shift, chi_max / chi_list, max_sweeps, '
        'N_sweeps_check, combine. Oracle: dense H (from the MPO, C10) restricted to the charge sector of the initial state, '
        'numpy.linalg.eigh: soundness clauses for every configuration (psi.norm = 1, norm_test, sector, E_run = <psi|H|psi> up to the '
        'reported truncation, <psi|H|psi> >= E0(sector), E_run >= E0(sector)), convergence clause only for two-site DMRG with a mixer, no '
        'truncation and a gap >= 1e-3 |H| above the lowest level reachable from the initial state. Infinite: iDMRG and VUMPS on gapped '
        'chains: returned energy equals the MPO expectation value of the returned iMPS, canonical form, variational with respect to '
        'the exact energy density of the TFI chain. Non-trivial: sector dimension >= 3. Distinct = distinct canonical JSON spec.')
ASSUMPTIONS = ['dense H from the MPO as validated by C10', 'MPS <-> dense conversion as validated by C07']


@st.composite
def dmrg_specs(draw, tier):
    name = draw(st.sampled_from(sorted(c14.MODELS)))
    d = c14.MODELS[name][3]
    L = draw(st.integers(3, 8 if d == 2 else 5))
    params = {p: draw(st.integers(-150, 150)) / 100. for p in c14.MODELS[name][1]}
    mixer = draw(st.sampled_from([None, True, 'DensityMatrixMixer', 'SubspaceExpansion']))
    return {'model': name, 'L': L, 'params': params, 'conserve': draw(st.integers(0, len(c14.MODELS[name][2]) - 1)), 'engine': draw(st.sampled_from(['two', 'two', 'single'])),
            'mixer': mixer, 'amplitude': draw(st.sampled_from([1e-5, 1e-3, 1e-2])), 'decay': draw(st.sampled_from([2.0, 1.5, 1.0])),
            'disable_after': draw(st.sampled_from([15, 3, 8, 50])), 'diag': draw(st.sampled_from(['default', 'default', 'lanczos', 'arpack', 'ED_block', 'ED_all'])),
            'E_shift': draw(st.sampled_from([None, None, None, -20.0, 5.0])), 'chi_max': draw(st.sampled_from([None, None, None, 2, 4, 8])),
            'chi_list': draw(st.booleans()), 'max_sweeps': draw(st.sampled_from([1, 2, 5, 30, 30, 30])), 'N_sweeps_check': draw(st.sampled_from([1, 1, 2, 3])),
            'combine': draw(st.booleans()), 'seed': draw(st.integers(0, 2 ** 20)), 'max_N_for_ED': draw(st.sampled_from([400, 2])),
            'state': 'product', 'excited': draw(st.integers(0, 2)) == 0, 'eph': draw(st.integers(0, 3)) == 0}


def run_dmrg(spec):
    from tenpy.algorithms import dmrg
    from tenpy.networks.mps import MPS
    with warnings.catch_warnings():
        warnings.simplefilter('ignore')
        try:
            model = c14.build_model(dict(spec, engine='DMRG'))
        except ValueError as e:
            if "can't determine all charges" in str(e):
                raise Skip()
            raise
        sites = model.lat.mps_sites()
        L = len(sites)
        H = M.mpo_to_dense(model.H_MPO)
        nH = np.linalg.norm(H, 2)
        if nH < 1e-6:
            raise Skip()
        require(np.linalg.norm(H - H.conj().T) <= 1e-10 * nH, 'harness-nonhermitian', '')
        rng = np.random.default_rng(spec['seed'])
        idx = [int(rng.integers(0, s.dim)) for s in sites]
        psi = MPS.from_product_state(sites, idx, bc='finite', dtype=float, permute=False, unit_cell_width=L)
        v0 = np.zeros([s.dim for s in sites])
        v0[tuple(idx)] = 1.
        v0 = v0.reshape(-1)
        qflat = c14.sector_labels(sites)
        q0 = qflat[np.argmax(v0)]
        sector = np.nonzero(np.all(qflat == q0[None, :], axis=1))[0]
        Hs = H[np.ix_(sector, sector)]
        lam, V = np.linalg.eigh(Hs)
        E0 = lam[0]
        m = len(sector)
        single = spec['engine'] == 'single'
        mixer = spec['mixer']
        opts = {'mixer': mixer, 'diag_method': spec['diag'], 'max_sweeps': spec['max_sweeps'], 'N_sweeps_check': spec['N_sweeps_check'],
                'combine': spec['combine'], 'max_N_for_ED': spec['max_N_for_ED'], 'max_trunc_err': None,
                'trunc_params': {'chi_max': spec['chi_max'] if spec['chi_max'] else 512, 'svd_min': 1e-12}}
        if mixer is not None:
            opts['mixer_params'] = {'amplitude': spec['amplitude'], 'decay': spec['decay'], 'disable_after': spec['disable_after']}
        if spec['E_shift'] is not None:
            opts['lanczos_params'] = {'E_shift': spec['E_shift']}
        if spec['chi_list'] and spec['chi_max']:
            opts['chi_list'] = {0: 2, 2: spec['chi_max']}
        elif spec['chi_list']:
            opts['chi_list'] = {0: 2, 3: None}  # documented: None stands for trunc_params['chi_max'], i.e. untruncated from sweep 3 on
        tags = dict(engine=spec['engine'], mixer=str(mixer), diag=spec['diag'])
        if spec.get('eph'):
            tags['eph'] = True
        tags0 = dict(tags)
        cls = dmrg.SingleSiteDMRGEngine if single else dmrg.TwoSiteDMRGEngine
        eng = cls(psi, model, opts)
        try:
            E, psi_out = eng.run()
        except Exception as e:
            # diag_method='arpack' (documented as a debugging aid): ARPACK refuses degenerate local problems (null effective H,
            # dimension <= 2); not a statement about DMRG
            if spec['diag'] == 'arpack' and type(e).__name__ in ('ArpackError', 'ArpackNoConvergence'):
                raise Skip()
            raise
        require(psi_out is psi, 'returned-psi', 'run() returns another object than the psi which is optimized in place', **tags)
        # the last sweep was performed with the mixer if it is still enabled, or if it got disabled by `disable_after` right after
        # that sweep (sweep number `disable_after` is the last one with the mixer)
        last_sweep_mixed = eng.mixer is not None or (mixer is not None and eng.sweeps <= spec['disable_after'])
        tags['mixer_on_at_end'] = bool(last_sweep_mixed)
        # --- soundness
        psi.test_sanity()
        require(all(np.ndim(s) == 1 for s in psi._S), 'singular-values-not-diagonal', 'S of the returned MPS is a 2D array (mixer not cleaned up)', **tags)
        require(abs(psi.norm - 1.) <= 1e-10, 'norm-not-1', 'psi.norm = %r' % psi.norm, **tags)
        nt = np.max(np.abs(psi.norm_test()))
        require(nt <= 1e-5, 'not-canonical', 'norm_test = %r > norm_tol = 1e-5 (documented default)' % nt, **tags)
        res = M.mps_to_dense(psi).reshape(-1)
        nr = np.linalg.norm(res)
        require(abs(nr - 1.) <= 1e-8, 'state-not-normalized', '|psi| = %r' % nr, **tags)
        if spec['diag'] != 'ED_all':
            outside = np.ones(len(res), dtype=bool)
            outside[sector] = False
            require(np.linalg.norm(res[outside]) == 0., 'left-charge-sector', 'weight %r outside of the sector of the initial state' % np.linalg.norm(res[outside]), **tags)
            Eref = E0
        else:
            Eref = np.linalg.eigvalsh(H)[0]  # documented: ED_all may change the charge sector
        EH = np.vdot(res, H @ res).real / nr ** 2
        err = float(np.max(eng.trunc_err_list)) if len(eng.trunc_err_list) else 0.
        tot_err = float(eng.trunc_err.eps) if hasattr(eng, 'trunc_err') and eng.trunc_err is not None else err
        require(EH >= Eref - 1e-9 * max(1., nH), 'below-ground-state', '<psi|H|psi> = %r < E0(sector) = %r' % (EH, Eref), **tags)
        truncating = spec['chi_max'] is not None
        # the reported energy is the one of the last local update, before its truncation (documented: sweep_stats E): compare up to
        # the reported truncation of the last sweep
        tolE = 1e-8 * max(1., nH) + 20 * nH * err * L  # err = 0 if the last sweep did not truncate
        if not last_sweep_mixed:
            require(abs(E - EH) <= tolE, 'energy-mismatch', 'E_run = %r, <psi|H|psi> = %r (max trunc_err of the last sweep %r, sweeps %d)' % (E, EH, err, eng.sweeps), shift=spec['E_shift'] is not None, **tags)
        require(E >= Eref - 1e-8 * max(1., nH) - tolE, 'E_run-below-ground-state', 'E_run = %r < E0(sector) = %r' % (E, Eref), shift=spec['E_shift'] is not None, **tags)
        # --- convergence on the validated class
        w = np.abs(V.conj().T @ v0[sector]) ** 2
        # lowest level reachable from the initial state (hidden symmetries of H keep DMRG in an invariant subspace)
        groups = []
        k = 0
        while k < m:
            j = k
            while j + 1 < m and lam[j + 1] - lam[k] < 1e-9 * max(1., nH):
                j += 1
            groups.append((lam[k], float(np.sum(w[k:j + 1])), j - k + 1))
            k = j + 1
        reach = [g for g in groups if g[1] > 1e-10]
        Econn = reach[0][0]
        gap = (reach[1][0] - Econn) if len(reach) > 1 else np.inf
        # the declared charges have to exhaust the symmetries that are diagonal in the product basis (sector-connected H): otherwise the
        # local eigensolver may move the state into another hidden sector (e.g. another particle number with conserve='parity'),
        # where an exact product eigenstate (completely filled chain) is a fixed point that no mixer built from H can leave
        from scipy.sparse.csgraph import connected_components
        ncomp = connected_components(np.abs(Hs) > 1e-12, directed=False)[0]
        # (single-site DMRG with a mixer is included although the property only names the two-site engine: on these sizes it converges
        # as well, and it is the engine that depends on the mixer alone - finding F87 shows up there in a connected sector)
        conv_class = (mixer is not None and not truncating and spec['max_sweeps'] >= 30 and spec['diag'] in ('default', 'lanczos', 'ED_block', 'arpack')
                      and gap >= 1e-3 * nH and spec['E_shift'] is None and ncomp == 1)
        classes = ['engine:' + spec['engine'], 'mixer:%s' % mixer, 'diag:' + spec['diag'], 'sector-dim:%s' % ('1' if m == 1 else '2' if m == 2 else '>=3')]
        if conv_class:
            require(EH - Econn <= 1e-7 * max(1., abs(Econn)), 'not-converged', '<psi|H|psi> - E0 = %r after %d sweeps (gap %r, sector dimension %d)' % (EH - Econn, eng.sweeps, gap, m), **tags)
            classes.append('convergence-class')
        if truncating:
            classes.append('truncating')
        if spec['E_shift'] is not None:
            classes.append('E_shift')
        # --- excited state: a second run orthogonal to the state just found (documented `orthogonal_to`)
        # (psi, converged or not, is a valid normalized state of the sector: the lowest state orthogonal to it has an energy in
        # [lambda_0, lambda_1] by interlacing, and >= lambda_1 if psi is the ground state)
        if spec.get('excited') and m >= 3 and not truncating and spec['diag'] != 'ED_all' and not last_sweep_mixed:
            psi2 = None
            for k2 in range(40):  # a random start state in the same charge sector
                vec2, q2 = M.random_state(sites, spec['seed'] + 7919 * k2, cplx=False)
                if np.array_equal(np.asarray(q2), np.asarray(q0)):
                    psi2 = MPS.from_full(sites, M.to_npc_state(sites, vec2, q2), form='B', unit_cell_width=L)
                    break
            if psi2 is not None:
                # (the energies of the states to be orthogonal to have to be below zero, documented: shift H if necessary is the
                # user's job; we only use cases where the found energy is negative)
                if True:
                    opts2 = dict(opts)
                    opts2['max_sweeps'] = 30
                    ortho = psi
                    if spec['seed'] % 2:
                        # the same state with the total charge distributed differently over its tensors (any gauge is legal)
                        ortho = psi.copy()
                        ortho.gauge_total_charge()
                    eng2 = cls(psi2, model, opts2, orthogonal_to=[ortho])
                    try:
                        E2, _ = eng2.run()
                    except Exception as e:
                        if spec['diag'] == 'arpack' and type(e).__name__ in ('ArpackError', 'ArpackNoConvergence'):
                            raise Skip()  # as above
                        raise
                    psi2.test_sanity()
                    r2 = M.mps_to_dense(psi2).reshape(-1)
                    n2 = np.linalg.norm(r2)
                    require(abs(n2 - 1.) <= 1e-8 and abs(psi2.norm - 1.) <= 1e-10, 'excited-norm', '|psi| = %r, psi.norm = %r' % (n2, psi2.norm), **tags0)
                    require(np.linalg.norm(r2[outside]) == 0., 'excited-left-charge-sector', '', **tags0)
                    ov = abs(np.vdot(res, r2))
                    # documented caveat (warning of post_run_cleanup): with a final energy consistent with zero the orthogonality
                    # can not be guaranteed (the projected-out states are eigenvectors of P H P with eigenvalue 0)
                    EH2 = np.vdot(r2, H @ r2).real
                    # (with the Lanczos option E_shift the relevant energy is the one of the shifted operator)
                    # (asserted only well inside that regime: with a shifted energy close to zero compared to the spectral width the
                    # local eigensolver separates the target from the projected-out direction arbitrarily slowly)
                    margin = -0.05 * max(1., nH)
                    if E2 + (spec['E_shift'] or 0.) < margin and E2 < margin:
                        # the projector acts inside the local eigensolver only (the initial guess is not projected), so the
                        # component along psi0 decays from sweep to sweep and is as small as the convergence criteria make it:
                        # a remaining overlap eps costs eps^2 |E| in energy, max_E_err = 1e-8 allows eps ~ 1e-4 .. 1e-3
                        require(ov <= 1e-3, 'excited-not-orthogonal', '|<psi0|psi1>| = %r (E1 = %r)' % (ov, E2), **tags0)
                        if eng2.mixer is None:
                            require(abs(E2 - EH2) <= 1e-7 * max(1., nH), 'excited-energy-mismatch', 'E_run = %r, <psi1|H|psi1> = %r' % (E2, EH2), **tags0)
                        lam2 = lam[1] if EH - Eref <= 1e-9 * max(1., nH) else lam[0]
                        require(EH2 >= min(lam2, 0.) - 1e-5 * max(1., nH), 'excited-below-second-level', '<psi1|H|psi1> = %r < lambda_2(sector) = %r' % (EH2, lam2), **tags0)
                        classes.append('excited')
                    else:
                        classes.append('excited-zero-energy-caveat')
    return {'nontrivial': m >= 3, 'classes': classes}


SUBCHECKS = [Sub('finite_dmrg', dmrg_specs, run_dmrg, quick=500, thorough=12000)]


# ------------------------------------------------------------------------------------------------
# infinite chains: iDMRG and VUMPS on the transverse field Ising chain

def e0_tfi(J, g):
    """exact ground state energy density of H = -J sum XX - g sum Z"""
    from scipy.integrate import quad
    f = lambda k: np.sqrt(J * J + g * g + 2 * J * g * np.cos(k))
    return -quad(f, 0, np.pi, epsabs=1e-13, epsrel=1e-13)[0] / np.pi


@st.composite
def inf_specs(draw, tier):
    g = draw(st.sampled_from([0.3, 0.5, 0.7, 1.4, 1.8, 2.5]))
    return {'g': g, 'J': draw(st.sampled_from([1.0, 0.7, -1.0])), 'L': draw(st.integers(1, 3)), 'conserve': draw(st.sampled_from([None, 'parity'])),
            'engine': draw(st.sampled_from(['dmrg2', 'dmrg2', 'dmrg1', 'vumps1', 'vumps2'])), 'mixer': draw(st.sampled_from([None, True, 'DensityMatrixMixer', 'SubspaceExpansion'])),
            'chi': draw(st.sampled_from([8, 16, 24])), 'combine': draw(st.booleans()), 'N_sweeps_check': draw(st.sampled_from([2, 4, 10])),
            'seed': draw(st.integers(0, 1000))}


def run_infinite(spec):
    from tenpy.algorithms import dmrg, vumps
    from tenpy.models.tf_ising import TFIChain
    from tenpy.networks.mps import MPS
    with warnings.catch_warnings():
        warnings.simplefilter('ignore')
        kind = spec['engine']
        L = spec['L']
        if (kind.startswith('dmrg') or kind == 'vumps2') and L < 2:
            L = 2  # two-site methods require a two-site unit cell (documented ValueError)
        g = spec['g']
        conserve = spec['conserve']
        if kind.startswith('vumps'):
            # VUMPS needs an injective ground state: paramagnetic phase only (|g| > |J|; the symmetry broken phase gives cat states
            # with a degenerate transfer matrix); from_desired_bond_dimension (single-site start) does not support charges
            g = max(g, 1.4) if g >= 1 else 1. / g
            L = min(L, 2)
            if kind == 'vumps1':
                conserve = None
        if spec['J'] < 0 and abs(g) < abs(spec['J']) and L % 2:
            # antiferromagnetic order (period 2) does not fit into a unit cell of odd length: the variational optimum is a frustrated /
            # non-injective state whose canonical form is ill-defined (degenerate transfer matrix); not a statement about the engines
            L = 2
        model = TFIChain({'L': L, 'J': spec['J'], 'g': g, 'bc_MPS': 'infinite', 'conserve': conserve})
        sites = model.lat.mps_sites()
        mixer = spec['mixer']
        opts = {'mixer': mixer, 'combine': spec['combine'], 'N_sweeps_check': spec['N_sweeps_check'], 'max_sweeps': 60, 'max_E_err': 1e-11, 'max_S_err': 1e-7,
                'trunc_params': {'chi_max': spec['chi'], 'svd_min': 1e-10}, 'max_trunc_err': None}
        if mixer is not None:
            opts['mixer_params'] = {'amplitude': 1e-5, 'decay': 2., 'disable_after': 12}
        if kind == 'dmrg1' and mixer is None:
            opts['mixer'] = mixer = True  # single-site DMRG can not grow the bond dimension without a mixer
            opts['mixer_params'] = {'amplitude': 1e-5, 'decay': 2., 'disable_after': 12}
        if kind.startswith('vumps'):
            opts['max_sweeps'] = 30
            opts['combine'] = False  # VUMPS works with combine=False only (asserted by the engine)
        tags = dict(engine=kind, mixer=str(mixer), update_env=spec['N_sweeps_check'] // 2)
        if kind == 'vumps1':
            np.random.seed(spec['seed'])  # (from_desired_bond_dimension draws from the global numpy generator)
            psi = MPS.from_desired_bond_dimension(sites, spec['chi'], bc='infinite', unit_cell_width=L)
            opts['mixer'] = None
            opts.pop('mixer_params', None)
            tags['mixer'] = 'None'
        else:
            # symmetry-broken / polarized product state in the sector with all spins up
            psi = MPS.from_product_state(sites, [0] * L, bc='infinite', unit_cell_width=L)
        cls = {'dmrg2': dmrg.TwoSiteDMRGEngine, 'dmrg1': dmrg.SingleSiteDMRGEngine, 'vumps1': vumps.SingleSiteVUMPSEngine, 'vumps2': vumps.TwoSiteVUMPSEngine}[kind]
        eng = cls(psi, model, opts)
        E, psi = eng.run()
        psi.test_sanity()
        e_exact = e0_tfi(spec['J'], g)
        nt = float(np.max(np.abs(psi.norm_test())))
        require(nt <= 1e-5, 'infinite-not-canonical', 'norm_test = %r > norm_tol = 1e-5' % nt, **tags)
        require(abs(psi.norm - 1.) <= 1e-10, 'norm-not-1', 'psi.norm = %r' % psi.norm, **tags)
        EH = float(np.real(model.H_MPO.expectation_value(psi)))
        Eb = float(np.mean(psi.expectation_value(model.H_bond)))
        # (expectation_value of bond operators assumes the canonical form, which holds up to norm_test only)
        require(abs(EH - Eb) <= 1e-8 + 10 * nt, 'infinite-energy-representations', 'MPO %r vs bonds %r (norm_test %r)' % (EH, Eb, nt), **tags)
        require(EH >= e_exact - 1e-9, 'below-ground-state', '<H> per site = %r < exact %r' % (EH, e_exact), **tags)
        err = float(np.max(eng.trunc_err_list)) if len(eng.trunc_err_list) else 0.
        # E_run of iDMRG is an estimate from the growth of the total energy: accurate up to the convergence reached
        dE = abs(eng.sweep_stats['Delta_E'][-1]) if len(eng.sweep_stats.get('Delta_E', [])) else 0.
        ne = abs(eng.sweep_stats['norm_err'][-1]) if len(eng.sweep_stats.get('norm_err', [])) else 0.  # reported error of the canonical form
        tol = max(1e-7, 10 * nt, 10 * ne, 100 * err, 100 * dE * spec['N_sweeps_check'])
        require(abs(E - EH) <= tol, 'energy-mismatch', 'E_run = %r, <H> of the returned state = %r (norm_test %r, trunc_err %r, %d sweeps)' % (E, EH, nt, err, eng.sweeps), **tags)
        require(E >= e_exact - tol, 'E_run-below-ground-state', 'E_run = %r < exact %r' % (E, e_exact), **tags)
        # convergence of the gapped chain (validated class)
        if spec['chi'] >= 16 and abs(g / abs(spec['J']) - 1.) >= 0.3:
            require(EH - e_exact <= 1e-6, 'infinite-not-converged', '<H> - e_exact = %r after %d sweeps, chi %r' % (EH - e_exact, eng.sweeps, psi.chi), **tags)
    return {'nontrivial': True, 'classes': ['inf-engine:' + kind, 'inf-mixer:%s' % tags['mixer'], 'L=%d' % L]}


SUBCHECKS.append(Sub('infinite', inf_specs, run_infinite, quick=16, thorough=320))


# ------------------------------------------------------------------------------------------------
# infinite XXZ chain in the gapped antiferromagnetic phase: a Hamiltonian with genuine "A B + h.c." terms (unlike the TFI chain, whose
# terms are all self-adjoint), with and without explicit_plus_hc; exact energy density from the Bethe ansatz


def e0_xxz(delta):
    """ground state energy per site of sum_i Sx Sx + Sy Sy + delta Sz Sz for delta > 1"""
    gam = np.arccosh(delta)
    ser = sum(1. / (np.exp(2 * n * gam) + 1.) for n in range(1, 2000))
    return delta / 4. - np.sinh(gam) * (0.5 + 2. * ser)


@st.composite
def xxz_specs(draw, tier):
    return {'Jz': draw(st.sampled_from([2.0, 3.0, 4.0])), 'explicit_plus_hc': draw(st.booleans()), 'conserve': draw(st.sampled_from([None, 'Sz'])),
            'engine': draw(st.sampled_from(['dmrg2', 'vumps2', 'vumps2', 'vumps1'])), 'chi': draw(st.sampled_from([16, 24])), 'N_sweeps_check': draw(st.sampled_from([2, 4])),
            'mixer': draw(st.sampled_from([None, True])), 'seed': draw(st.integers(0, 1000))}


def run_xxz(spec):
    from tenpy.algorithms import dmrg, vumps
    from tenpy.models.xxz_chain import XXZChain2
    from tenpy.networks.mps import MPS
    with warnings.catch_warnings():
        warnings.simplefilter('ignore')
        kind = spec['engine']
        L = 2
        conserve = spec['conserve'] if kind != 'vumps1' else None  # (from_desired_bond_dimension does not support charges)
        model = XXZChain2({'L': L, 'Jxx': 1., 'Jz': spec['Jz'], 'hz': 0., 'bc_MPS': 'infinite', 'conserve': conserve, 'explicit_plus_hc': spec['explicit_plus_hc']})
        sites = model.lat.mps_sites()
        mixer = spec['mixer'] if kind == 'dmrg2' else None
        opts = {'mixer': mixer, 'combine': False, 'N_sweeps_check': spec['N_sweeps_check'], 'max_sweeps': 60, 'max_E_err': 1e-11, 'max_S_err': 1e-7,
                'trunc_params': {'chi_max': spec['chi'], 'svd_min': 1e-10}, 'max_trunc_err': None}
        if mixer is not None:
            opts['mixer_params'] = {'amplitude': 1e-4, 'decay': 2., 'disable_after': 10}
        if kind.startswith('vumps'):
            opts['max_sweeps'] = 40
        tags = dict(engine=kind, mixer=str(mixer), eph=spec['explicit_plus_hc'], model='XXZ')
        if kind == 'vumps1':
            np.random.seed(spec['seed'])
            psi = MPS.from_desired_bond_dimension(sites, spec['chi'], bc='infinite', unit_cell_width=L)
        else:
            psi = MPS.from_product_state(sites, ['up', 'down'], bc='infinite', unit_cell_width=L)  # symmetry broken Neel state
        cls = {'dmrg2': dmrg.TwoSiteDMRGEngine, 'vumps1': vumps.SingleSiteVUMPSEngine, 'vumps2': vumps.TwoSiteVUMPSEngine}[kind]
        eng = cls(psi, model, opts)
        E, psi = eng.run()
        psi.test_sanity()
        e_exact = e0_xxz(spec['Jz'])
        nt = float(np.max(np.abs(psi.norm_test())))
        if kind == 'vumps1' and nt > 1e-5:
            raise Skip()  # random start: may end in a superposition of the two Neel states (non-injective, see `infinite`)
        require(nt <= 1e-5, 'infinite-not-canonical', 'norm_test = %r > norm_tol = 1e-5' % nt, **tags)
        require(abs(psi.norm - 1.) <= 1e-10, 'norm-not-1', 'psi.norm = %r' % psi.norm, **tags)
        EH = float(np.real(model.H_MPO.expectation_value(psi)))
        Eb = float(np.mean(psi.expectation_value(model.H_bond)))
        require(abs(EH - Eb) <= 1e-8 + 10 * nt, 'infinite-energy-representations', 'MPO %r vs bonds %r (norm_test %r)' % (EH, Eb, nt), **tags)
        require(EH >= e_exact - 1e-9, 'below-ground-state', '<H> per site = %r < exact %r' % (EH, e_exact), **tags)
        err = float(np.max(eng.trunc_err_list)) if len(eng.trunc_err_list) else 0.
        dE = abs(eng.sweep_stats['Delta_E'][-1]) if len(eng.sweep_stats.get('Delta_E', [])) else 0.
        ne = abs(eng.sweep_stats['norm_err'][-1]) if len(eng.sweep_stats.get('norm_err', [])) else 0.
        tol = max(1e-7, 10 * nt, 10 * ne, 100 * err, 100 * dE * spec['N_sweeps_check'])
        if kind != 'vumps1':  # (single-site VUMPS with a two-site unit cell: known finding F65)
            require(abs(E - EH) <= tol, 'energy-mismatch', 'E_run = %r, <H> of the returned state = %r (norm_test %r, trunc_err %r, %d sweeps)' % (E, EH, nt, err, eng.sweeps), **tags)
            require(E >= e_exact - tol, 'E_run-below-ground-state', 'E_run = %r < exact %r' % (E, e_exact), **tags)
            require(EH - e_exact <= 1e-5, 'infinite-not-converged', '<H> - e_exact = %r after %d sweeps, chi %r' % (EH - e_exact, eng.sweeps, psi.chi), **tags)
        else:
            require(EH - e_exact <= 1e-3, 'infinite-not-converged', '<H> - e_exact = %r after %d sweeps, chi %r' % (EH - e_exact, eng.sweeps, psi.chi), **tags)
    return {'nontrivial': True, 'classes': ['xxz-engine:' + kind, 'eph:%s' % spec['explicit_plus_hc'], 'Jz=%s' % spec['Jz']]}


SUBCHECKS.append(Sub('infinite_xxz', xxz_specs, run_xxz, quick=16, thorough=200))
