"""C12 - Local Hilbert spaces: operator algebra, basis bookkeeping and fermionic signs."""
import itertools
import warnings

import numpy as np

from vf.core import Sub, Violation, require, Skip

LEVEL = 'exploration'
RULE = ('site_enum: exhaustive enumeration of every predefined site class x parameters (S <= 3, Nmax <= 4, q <= 5, fillings) x every '
        'conserve option x sort_charge; per site: operators equal the conserve=None operators after the documented perm, state labels, '
        'defining algebra (spin commutators and Casimir, (truncated) boson commutator, fermionic CAR incl. the on-site JW convention of '
        'spinful fermions, JW = (-1)^N, clock relations), hc_ops pairs are adjoints, need_JW <=> anticommutes with JW, operator '
        'products via get_op, charge_to_JW_signs; the same generic clauses once more after rename_op of every second operator, after '
        'add_op of a product operator (with its hc and JW flag) and after remove_op. grouped_enum: every GroupedSite of 2-3 (heterogeneous) sites x charges in '
        '{same, drop, independent} (+ set_common_charges variants): grouped operators equal the Kronecker product with the JW of the '
        'left sites folded in, in the basis named by the grouped state labels. manybody: generated chains (L <= 5) mixing fermionic '
        'and non-fermionic sites; every term routed through the library (TermList -> Onsite/Coupling/MultiCouplingTerms -> MPO graph, '
        'MPS.expectation_value_term / correlation_function(autoJW) / term_correlation_function / apply_local_term) equals the product '
        'of independent Jordan-Wigner reference operators; hence {c_i, c_j^dag} = delta_ij. Every enumerated configuration counts as '
        'non-trivial; many-body: >= 2 fermionic operators on different sites. Distinct = distinct canonical JSON spec.')
ASSUMPTIONS = ['conserve=None instances of the same class serve as reference basis (documented meaning of Site.perm)']
EXHAUSTIVE = {'quick': True, 'thorough': True}


def site_configs():
    out = []
    for cons in ['Sz', 'parity', None]:
        for sc in [True, False]:
            out.append(['SpinHalfSite', {'conserve': cons, 'sort_charge': sc}])
    for S in [0.5, 1.0, 1.5, 2.0, 2.5, 3.0]:
        for cons in ['Sz', 'parity', None]:
            for sc in [True, False]:
                out.append(['SpinSite', {'S': S, 'conserve': cons, 'sort_charge': sc}])
    for cons in ['N', 'parity', None]:
        for f in [0.5, 0.25, 1.0]:
            out.append(['FermionSite', {'conserve': cons, 'filling': f}])
    for cls in ['SpinHalfFermionSite', 'SpinHalfHoleSite']:
        for cN in ['N', 'parity', None]:
            for cS in ['Sz', 'parity', None]:
                for f in [1.0, 0.5]:
                    out.append([cls, {'cons_N': cN, 'cons_Sz': cS, 'filling': f}])
    for Nmax in [1, 2, 3, 4]:
        for cons in ['N', 'parity', None]:
            for f in [0.0, 0.5]:
                out.append(['BosonSite', {'Nmax': Nmax, 'conserve': cons, 'filling': f}])
    for q in [2, 3, 4, 5]:
        for cons in ['Z', None]:
            for sc in [True, False]:
                out.append(['ClockSite', {'q': q, 'conserve': cons, 'sort_charge': sc}])
    return out


def make_site(cfg):
    from tenpy.networks import site as S
    return getattr(S, cfg[0])(**cfg[1])


def ref_cfg(cfg):
    kw = dict(cfg[1])
    for k in ('conserve', 'cons_N', 'cons_Sz'):
        if k in kw:
            kw[k] = None
    if 'sort_charge' in kw:
        kw['sort_charge'] = True
    return [cfg[0], kw]


def enum_sites(tier, shard, nshards, seed):
    for k, cfg in enumerate(site_configs()):
        if k % nshards == shard:
            yield {'site': cfg}


def d(site, name):
    return site.get_op(name).to_ndarray()


def comm(a, b):
    return a @ b - b @ a


def acomm(a, b):
    return a @ b + b @ a


def close(a, b, tol=1e-12):
    return a.shape == b.shape and np.allclose(a, b, atol=tol, rtol=0)


def check_algebra(site, cfg, tags):
    cls, kw = cfg
    ops = site.opnames
    n = site.dim
    I = np.eye(n)
    have = lambda *names: all(x in ops for x in names)  # noqa: E731
    if cls in ('SpinHalfSite', 'SpinSite'):
        S = kw.get('S', 0.5)
        require(n == int(2 * S + 1), 'dim', '', **tags)
        Sz, Sp, Sm = d(site, 'Sz'), d(site, 'Sp'), d(site, 'Sm')
        require(close(comm(Sz, Sp), Sp) and close(comm(Sz, Sm), -Sm) and close(comm(Sp, Sm), 2 * Sz), 'spin-ladder-commutators', '', **tags)
        require(close(Sz @ Sz + (Sp @ Sm + Sm @ Sp) / 2, S * (S + 1) * I), 'spin-casimir', '', **tags)
        require(close(np.sort(np.diag(Sz).real), np.arange(-S, S + 0.1, 1.0)) and close(Sz, np.diag(np.diag(Sz))), 'Sz-spectrum', '', **tags)
        if have('Sx', 'Sy'):
            Sx, Sy = d(site, 'Sx'), d(site, 'Sy')
            require(close(comm(Sx, Sy), 1j * Sz) and close(comm(Sy, Sz), 1j * Sx) and close(comm(Sz, Sx), 1j * Sy), 'spin-commutators', '', **tags)
            require(close(Sx + 1j * Sy, Sp) and close(Sx - 1j * Sy, Sm), 'Sp=Sx+iSy', '', **tags)
        if cls == 'SpinHalfSite':
            require(close(d(site, 'Sigmaz'), 2 * Sz), 'Sigmaz', '', **tags)
            if have('Sigmax', 'Sigmay'):
                require(close(d(site, 'Sigmax'), Sp + Sm) and close(d(site, 'Sigmay'), -1j * (Sp - Sm)), 'pauli', '', **tags)
        require(close(d(site, 'JW'), I), 'JW-trivial', '', **tags)
    elif cls == 'FermionSite':
        C, Cd, N, JW = d(site, 'C'), d(site, 'Cd'), d(site, 'N'), d(site, 'JW')
        require(close(acomm(C, Cd), I) and close(C @ C, 0 * I) and close(Cd @ Cd, 0 * I), 'CAR-onsite', '', **tags)
        require(close(N, Cd @ C) and close(JW, I - 2 * N), 'N-JW', '', **tags)
        require(close(d(site, 'dN'), N - kw['filling'] * I) and close(d(site, 'dNdN'), (N - kw['filling'] * I) @ (N - kw['filling'] * I)), 'dN', '', **tags)
    elif cls in ('SpinHalfFermionSite', 'SpinHalfHoleSite'):
        Cu, Cdu, Cd_, Cdd = d(site, 'Cu'), d(site, 'Cdu'), d(site, 'Cd'), d(site, 'Cdd')
        Nu, Nd, Ntot = d(site, 'Nu'), d(site, 'Nd'), d(site, 'Ntot')
        JW, JWu, JWd = d(site, 'JW'), d(site, 'JWu'), d(site, 'JWd')
        full = cls == 'SpinHalfFermionSite'
        require(n == (4 if full else 3), 'dim', '', **tags)
        require(close(Cdu, Cu.conj().T) and close(Cdd, Cd_.conj().T), 'adjoints', '', **tags)
        require(close(Nu, Cdu @ Cu) and close(Nd, Cdd @ Cd_) and close(Ntot, Nu + Nd), 'number-operators', '', **tags)
        require(close(Cu @ Cu, 0 * I) and close(Cd_ @ Cd_, 0 * I), 'C^2=0', '', **tags)
        # mixed anticommutators vanish (documented: Cd includes JWu); in the projected space of the hole site only for the
        # pairs which do not pass through the removed doubly occupied state
        require(close(acomm(Cu, Cd_), 0 * I) and close(acomm(Cdu, Cdd), 0 * I), 'mixed-anticommutators', '', **tags)
        if full:
            require(close(acomm(Cu, Cdd), 0 * I) and close(acomm(Cdu, Cd_), 0 * I), 'mixed-anticommutators', '', **tags)
        else:
            # the hole site is the spinful fermion site projected onto {empty, up, down}
            from tenpy.networks.site import SpinHalfFermionSite
            fs = SpinHalfFermionSite(None, None, kw['filling'])
            idx = [fs.state_labels[l] for l in ('empty', 'up', 'down')]
            mine = [site.state_labels[l] for l in ('empty', 'up', 'down')]
            for name in sorted(site.opnames):
                if name in fs.opnames and name not in ('Id',):
                    exp = d(fs, name)[np.ix_(idx, idx)]
                    got = d(site, name)[np.ix_(mine, mine)]
                    require(close(got, exp), 'hole-site-not-projection-of-fermion-site', 'operator %s' % name, opname=name, **tags)
        if full:
            require(close(acomm(Cu, Cdu), I) and close(acomm(Cd_, Cdd), I), 'CAR-onsite', '', **tags)
            require(close(d(site, 'NuNd'), Nu @ Nd), 'NuNd', '', **tags)
        else:
            # projected (no double occupancy): {c, c^dag} = 1 - n_other
            require(close(acomm(Cu, Cdu), I - Nd) and close(acomm(Cd_, Cdd), I - Nu), 'projected-CAR-onsite', '', **tags)
        require(close(JW, JWu @ JWd) and close(JWu, I - 2 * Nu) and close(JWd, I - 2 * Nd), 'JW=(-1)^N', '', **tags)
        Sz, Sp, Sm = d(site, 'Sz'), d(site, 'Sp'), d(site, 'Sm')
        require(close(Sz, (Nu - Nd) / 2) and close(Sp, Cdu @ Cd_) and close(Sm, Cdd @ Cu), 'spin-from-fermions', '', **tags)
        if have('Sx', 'Sy'):
            require(close(d(site, 'Sx'), (Sp + Sm) / 2) and close(d(site, 'Sy'), -0.5j * (Sp - Sm)), 'Sx-Sy', '', **tags)
        require(close(d(site, 'dN'), Ntot - kw['filling'] * I), 'dN', '', **tags)
    elif cls == 'BosonSite':
        Nmax = kw['Nmax']
        B, Bd, N = d(site, 'B'), d(site, 'Bd'), d(site, 'N')
        require(n == Nmax + 1, 'dim', '', **tags)
        require(close(Bd, B.conj().T) and close(N, Bd @ B), 'boson-N', '', **tags)
        # truncated commutator: [B, Bd] = 1 - (Nmax+1)|Nmax><Nmax|
        proj = np.zeros((n, n))
        top = int(np.argmax(np.diag(N).real))
        proj[top, top] = 1
        require(close(comm(B, Bd), I - (Nmax + 1) * proj), 'truncated-boson-commutator', '', **tags)
        require(close(np.sort(np.diag(N).real), np.arange(Nmax + 1.)), 'N-spectrum', '', **tags)
        require(close(d(site, 'NN'), N @ N) and close(d(site, 'dN'), N - kw['filling'] * I) and close(d(site, 'dNdN'), (N - kw['filling'] * I) @ (N - kw['filling'] * I)), 'NN-dN', '', **tags)
        require(close(d(site, 'P'), np.diag((-1.) ** np.round(np.diag(N).real))), 'parity-operator', '', **tags)
        require(close(d(site, 'JW'), I), 'JW-trivial', '', **tags)
    elif cls == 'ClockSite':
        q = kw['q']
        X, Z = d(site, 'X'), d(site, 'Z')
        w = np.exp(2j * np.pi / q)
        require(close(np.linalg.matrix_power(X, q), I) and close(np.linalg.matrix_power(Z, q), I), 'clock-X^q=Z^q=1', '', **tags)
        require(close(X @ X.conj().T, I) and close(Z @ Z.conj().T, I), 'clock-unitary', '', **tags)
        require(close(X @ Z, w * Z @ X) or close(Z @ X, w * X @ Z), 'clock-XZ=wZX', '', **tags)
        require(close(d(site, 'Xhc'), X.conj().T) and close(d(site, 'Zhc'), Z.conj().T), 'clock-hc', '', **tags)
        if have('Xphc'):
            require(close(d(site, 'Xphc'), X + X.conj().T), 'Xphc', '', **tags)
        if have('Zphc'):
            require(close(d(site, 'Zphc'), Z + Z.conj().T), 'Zphc', '', **tags)
        # documented matrices in the label basis
        lab = site.state_labels
        for k in range(q):
            zk = Z[lab[str(k)], lab[str(k)]]
            require(abs(zk - w ** k) < 1e-12, 'clock-Z-entries', 'state %d' % k, **tags)
        require(lab['up'] == lab['0'] and (q % 2 or lab['down'] == lab[str(q // 2)]), 'clock-aliases', '', **tags)


def check_generic(site, ref, cfg, tags):
    from tenpy.linalg import np_conserved as npc
    site.test_sanity()
    n = site.dim
    perm = np.asarray(site.perm)
    require(sorted(perm.tolist()) == list(range(n)), 'perm-not-permutation', str(perm), **tags)
    # ref is conserve=None with sort_charge=True: its perm is the identity
    require(np.array_equal(np.asarray(ref.perm), np.arange(n)), 'reference-perm', '', **tags)
    for name in sorted(site.opnames):
        require(name in ref.opnames, 'op-missing-in-conserve=None', name, **tags)
        a = d(site, name)
        b = d(ref, name)
        require(close(a, b[np.ix_(perm, perm)]), 'op!=op_None[perm,perm]', 'operator %s' % name, opname=name, **tags)
        op = site.get_op(name)
        require(op.get_leg_labels() == ['p', 'p*'], 'op-labels', name, **tags)
        require(op.legs[0] == site.leg and op.legs[1] == site.leg.conj(), 'op-legs', name, **tags)
    for lab, idx in site.state_labels.items():
        require(lab in ref.state_labels and perm[idx] == ref.state_labels[lab], 'state-label', 'label %r' % lab, **tags)
        require(site.state_index(lab) == idx, 'state_index', '', **tags)
    require(sorted(set(site.state_labels.values())) == list(range(n)), 'labels-do-not-cover-basis', '', **tags)
    # hermitian conjugate pairs
    for name in sorted(site.opnames):
        try:
            hc = site.get_hc_op_name(name)
        except (KeyError, ValueError):
            continue
        if hc is None or hc not in site.opnames:
            continue
        require(close(d(site, hc), d(site, name).conj().T), 'hc_ops-not-adjoint', '%s <-> %s' % (name, hc), **tags)
    # need_JW <=> anticommutes with JW
    JW = d(site, 'JW')
    require(close(JW @ JW, np.eye(n)) and close(JW, np.diag(np.diag(JW))), 'JW-not-diagonal-sign', '', **tags)
    require(close(JW, np.diag(np.exp(1j * np.pi * np.asarray(site.JW_exponent)))), 'JW_exponent', '', **tags)
    for name in sorted(site.opnames):
        o = d(site, name)
        if np.linalg.norm(o) < 1e-14 or name.startswith('JW'):
            continue  # 'JW', 'JWu', 'JWd' are members of need_JW_string by convention of the site classes
        anti = close(JW @ o @ JW, -o)
        commu = close(JW @ o @ JW, o)
        need = site.op_needs_JW(name)
        require((need and anti) or ((not need) and commu), 'need_JW-inconsistent', 'op %s: need_JW=%r anticommutes=%r commutes=%r' % (name, need, anti, commu), opname=name, **tags)
    # products via get_op / multiply_op_names
    names = sorted(site.opnames)
    rng = np.random.default_rng(len(names) + n)
    for _ in range(6):
        k = int(rng.integers(2, 4))
        pick = [names[int(i)] for i in rng.integers(0, len(names), size=k)]
        if any(p.startswith('JW') for p in pick):
            continue
        try:
            prod = site.get_op(' '.join(pick)).to_ndarray()
        except ValueError:
            continue  # product not charge-conserving as a single block: acceptable to refuse? (never for valid ops)
        exp = np.eye(n)
        for p in pick:
            exp = exp @ d(site, p)
        require(close(prod, exp), 'get_op-product', ' '.join(pick), **tags)
        require(site.valid_opname(' '.join(pick)), 'valid_opname', '', **tags)
        njw = sum(site.op_needs_JW(p) for p in pick) % 2 == 1
        require(site.op_needs_JW(' '.join(pick)) == njw, 'op_needs_JW-product', ' '.join(pick), **tags)
        hcname = site.get_hc_op_name(' '.join(pick))
        require(close(d(site, hcname), exp.conj().T), 'get_hc_op_name-product', '%s -> %s' % (' '.join(pick), hcname), **tags)
    require(not site.valid_opname('NoSuchOp'), 'valid_opname-false-positive', '', **tags)
    # charges of operators: every non-zero entry connects states whose charge difference is op.qtotal
    ql = np.asarray(site.leg.to_qflat()) * site.leg.qconj
    mod = [int(m) for m in site.leg.chinfo.mod]
    for name in names:
        op = site.get_op(name)
        o = op.to_ndarray()
        nz = np.argwhere(np.abs(o) > 1e-14)
        for (i, j) in nz[:20]:
            dq = ql[i] - ql[j]
            dq = np.array([x if m == 1 else x % m for x, m in zip(dq, mod)])
            require(np.array_equal(dq, op.qtotal), 'op-charge', 'op %s entry (%d,%d)' % (name, i, j), **tags)
    c2p = getattr(site, 'charge_to_JW_parity', None)
    if c2p is not None:
        signs = site.charge_to_JW_signs(np.asarray(site.leg.to_qflat()))
        require(close(np.asarray(signs, dtype=float), np.diag(JW).real), 'charge_to_JW_signs', '%s vs %s' % (signs, np.diag(JW).real), **tags)


def run_site(spec):
    cfg = spec['site']
    tags = dict(cls=cfg[0])
    with warnings.catch_warnings():
        warnings.simplefilter('ignore')
        site = make_site(cfg)
        ref = make_site(ref_cfg(cfg))
        check_generic(site, ref, cfg, tags)
        check_algebra(site, cfg, tags)
        check_op_bookkeeping(cfg, tags)
    return {'nontrivial': True, 'classes': ['cls:' + cfg[0]]}


def check_op_bookkeeping(cfg, tags):
    """rename_op / add_op / remove_op keep the operator tables consistent: the renamed / added operators have the same matrices,
    hermitian conjugates and Jordan-Wigner flags (all generic clauses are re-run on the modified site)"""
    site, ref = make_site(cfg), make_site(ref_cfg(cfg))
    names = sorted(n_ for n_ in site.opnames if n_ not in ('Id', 'JW'))
    before = {n_: (d(site, n_).copy(), site.op_needs_JW(n_), site.hc_ops.get(n_)) for n_ in names}
    renamed = {}
    for k, n_ in enumerate(names):
        if k % 2 == 0:
            renamed[n_] = n_ + '_r'
    for old, new in renamed.items():
        site.rename_op(old, new)
        ref.rename_op(old, new)
    t = dict(tags, method='rename_op')
    for old, (mat, jw, hc) in before.items():
        new = renamed.get(old, old)
        require(new in site.opnames and (old == new or old not in site.opnames), 'rename_op-opnames', '%s -> %s' % (old, new), **t)
        require(close(d(site, new), mat), 'rename_op-matrix', '%s -> %s' % (old, new), **t)
        require(site.op_needs_JW(new) == jw, 'rename_op-need_JW', '%s -> %s: need_JW %r before, %r after' % (old, new, jw, site.op_needs_JW(new)), **t)
        if hc is not None:
            require(site.hc_ops.get(new) == renamed.get(hc, hc), 'rename_op-hc_ops', '%s -> %s: hc %r, expected %r' % (old, new, site.hc_ops.get(new), renamed.get(hc, hc)), **t)
    check_generic(site, ref, cfg, t)
    # add_op: the product of two operators under a new name (with its Jordan-Wigner flag and hermitian conjugate), then remove it again
    cur = sorted(n_ for n_ in site.opnames if not n_.startswith('JW') and n_ != 'Id')
    t = dict(tags, method='add_op')
    if len(cur) >= 2:
        a, b = cur[0], cur[-1]
        jw = (site.op_needs_JW(a) + site.op_needs_JW(b)) % 2 == 1
        for s_ in (site, ref):
            s_.add_op('AB_new', s_.get_op(a + ' ' + b), need_JW=jw, hc='BA_new')
            s_.add_op('BA_new', s_.get_op(s_.get_hc_op_name(a + ' ' + b)), need_JW=jw, hc='AB_new')
        require(close(d(site, 'AB_new'), d(site, a) @ d(site, b)), 'add_op-matrix', '%s %s' % (a, b), **t)
        require(site.op_needs_JW('AB_new') == jw and site.hc_ops.get('AB_new') == 'BA_new' and site.hc_ops.get('BA_new') == 'AB_new', 'add_op-tables', '', **t)
        check_generic(site, ref, cfg, t)
        t = dict(tags, method='remove_op')
        for s_ in (site, ref):
            s_.remove_op('AB_new')
        require('AB_new' not in site.opnames and 'AB_new' not in site.need_JW_string and 'AB_new' not in site.hc_ops and 'BA_new' not in site.hc_ops
                and not hasattr(site, 'AB_new'), 'remove_op-tables', '', **t)
        for s_ in (site, ref):
            s_.remove_op('BA_new')
        check_generic(site, ref, cfg, t)


# ------------------------------------------------------------------------------------------------
# grouped sites


def grouped_configs():
    base = [
        ['SpinHalfSite', {'conserve': 'Sz', 'sort_charge': True}],
        ['SpinHalfSite', {'conserve': 'Sz', 'sort_charge': False}],
        ['SpinHalfSite', {'conserve': None, 'sort_charge': True}],
        ['SpinSite', {'S': 1.0, 'conserve': 'Sz', 'sort_charge': True}],
        ['SpinSite', {'S': 1.0, 'conserve': 'Sz', 'sort_charge': False}],
        ['FermionSite', {'conserve': 'N', 'filling': 0.5}],
        ['FermionSite', {'conserve': 'parity', 'filling': 0.5}],
        ['FermionSite', {'conserve': None, 'filling': 0.5}],
        ['BosonSite', {'Nmax': 2, 'conserve': 'N', 'filling': 0.0}],
        ['BosonSite', {'Nmax': 1, 'conserve': 'parity', 'filling': 0.0}],
        ['SpinHalfFermionSite', {'cons_N': 'N', 'cons_Sz': 'Sz', 'filling': 1.0}],
        ['SpinHalfFermionSite', {'cons_N': 'parity', 'cons_Sz': None, 'filling': 1.0}],
        ['ClockSite', {'q': 3, 'conserve': 'Z', 'sort_charge': True}],
    ]
    out = []
    for n in (2, 3):
        for combo in itertools.product(range(len(base)), repeat=n):
            if n == 3 and (combo[0] + 2 * combo[1] + 3 * combo[2]) % 7 != 0:
                continue  # a fixed 1/7 subset of the triples
            for charges in ('same', 'drop', 'independent', 'common'):
                out.append({'sites': [base[i] for i in combo], 'charges': charges})
    return out


def enum_grouped(tier, shard, nshards, seed):
    for k, cfg in enumerate(grouped_configs()):
        if k % nshards == shard:
            yield cfg


def run_grouped(spec):
    from tenpy.networks import site as S
    tags = dict(charges=spec['charges'], n=len(spec['sites']))
    with warnings.catch_warnings():
        warnings.simplefilter('ignore')
        sites = [make_site(c) for c in spec['sites']]
        refs = [make_site(ref_cfg(c)) for c in spec['sites']]
        same_ch = all(s.leg.chinfo == sites[0].leg.chinfo for s in sites)
        charges = spec['charges']
        hetero = len(set(s.dim for s in sites)) > 1
        tags['hetero'] = hetero
        if charges == 'same' and not same_ch:
            raise Skip()
        if charges == 'common':
            # documented route for sites with different charges
            perms = S.set_common_charges(sites, 'independent')
            charges_arg = 'same'
            for s, r, c in zip(sites, refs, spec['sites']):
                s.test_sanity()
                for name in sorted(s.opnames):
                    p = np.asarray(s.perm)
                    require(close(d(s, name), d(r, name)[np.ix_(p, p)]), 'set_common_charges-changed-operator', name, **tags)
        else:
            charges_arg = charges
        before = [(s.leg.to_qflat().copy(), sorted(s.opnames), dict(s.state_labels)) for s in sites]
        g = S.GroupedSite(sites, charges=charges_arg)
        g.test_sanity()
        for s, (q, ops, labs) in zip(sites, before):
            require(np.array_equal(s.leg.to_qflat(), q) and sorted(s.opnames) == ops and dict(s.state_labels) == labs, 'grouping-mutated-site', '', **tags)
        n = len(sites)
        dims = [s.dim for s in sites]
        require(g.dim == int(np.prod(dims)), 'grouped-dim', '', **tags)
        # basis map from the grouped state labels: tuple of reference-basis indices -> grouped index
        primary = []
        for r in refs:
            inv = {}
            for lab, idx in r.state_labels.items():
                inv.setdefault(idx, lab)
            primary.append(inv)  # ref index -> one label
        gmap = {}
        for tup in itertools.product(*[range(dm) for dm in dims]):
            label = ' '.join('%s_%d' % (primary[k][tup[k]], k) for k in range(n))
            require(label in g.state_labels, 'grouped-state-label-missing', label, **tags)
            gmap[tup] = g.state_labels[label]
        require(sorted(gmap.values()) == list(range(g.dim)), 'grouped-state-labels-not-bijective', '', **tags)
        order = [t for t, _ in sorted(gmap.items(), key=lambda kv: kv[1])]  # grouped index -> tuple
        flat = [int(np.ravel_multi_index(t, dims)) for t in order]
        # operators
        JWs = [d(r, 'JW') for r in refs]
        Ids = [np.eye(dm) for dm in dims]
        for k, (s, r) in enumerate(zip(sites, refs)):
            for name in sorted(s.opnames):
                if name == 'Id':
                    continue
                gname = name + str(k)
                require(gname in g.opnames, 'grouped-op-missing', gname, **tags)
                need = r.op_needs_JW(name)
                facs = [(JWs[j] if (need and j < k) else Ids[j]) for j in range(n)]
                facs[k] = d(r, name)
                full = facs[0]
                for f in facs[1:]:
                    full = np.kron(full, f)
                exp = full[np.ix_(flat, flat)]
                got = d(g, gname)
                require(close(got, exp), 'grouped-op!=kron-with-JW', 'operator %s' % gname, opname=name, **tags)
                require(g.op_needs_JW(gname) == need, 'grouped-need_JW', gname, **tags)
        # JW of the grouped site = product of all JW
        full = JWs[0]
        for f in JWs[1:]:
            full = np.kron(full, f)
        require(close(d(g, 'JW'), full[np.ix_(flat, flat)]), 'grouped-JW', '', **tags)
        # fermionic operators on different sub-sites anticommute inside the group
        ferm = [(k, name) for k, r in enumerate(refs) for name in sorted(r.opnames) if r.op_needs_JW(name) and name in sites[k].opnames and not name.startswith('JW')]
        for (k1, n1), (k2, n2) in itertools.combinations(ferm[:6], 2):
            if k1 == k2:
                continue
            a, b = d(g, n1 + str(k1)), d(g, n2 + str(k2))
            require(close(a @ b + b @ a, 0 * a), 'grouped-fermions-do-not-anticommute', '%s%d %s%d' % (n1, k1, n2, k2), **tags)
    return {'nontrivial': True, 'classes': ['charges:' + spec['charges'], 'n=%d' % n] + (['hetero'] if hetero else [])}


SUBCHECKS = [
    Sub('site_enum', None, run_site, quick=1, thorough=1, enumerate_fn=enum_sites),
    Sub('grouped_enum', None, run_grouped, quick=1, thorough=1, enumerate_fn=enum_grouped),
]


# ------------------------------------------------------------------------------------------------
# many-body: Jordan-Wigner strings on heterogeneous chains, with offsets

from hypothesis import strategies as st  # noqa: E402
from vf import mps as M  # noqa: E402

FERM_CFGS = [i for i, c in enumerate(M.SITE_CFGS) if c[0] in M.FERMIONIC]
BOSE_CFGS = [i for i, c in enumerate(M.SITE_CFGS) if c[0] not in M.FERMIONIC and M.dim_of(c) <= 3]


@st.composite
def manybody_specs(draw, tier):
    a = draw(st.sampled_from(FERM_CFGS))
    b = draw(st.sampled_from(BOSE_CFGS + FERM_CFGS))
    pat = draw(st.sampled_from([[0, 1], [1, 0], [0, 0, 1], [0, 1, 1], [0]]))
    L = draw(st.integers(3, 6))
    cfg = [[a, b][pat[k % len(pat)]] for k in range(L)]
    dims = [M.dim_of(M.SITE_CFGS[i]) for i in cfg]
    while int(np.prod(dims)) > 2 ** 9 and len(cfg) > 3:
        cfg.pop()
        dims.pop()
    return {'chain': {'cfg': cfg}, 'seed': draw(st.integers(0, 2 ** 20)), 'which': draw(st.sampled_from(['term_corr_right', 'term_corr_left', 'apply_local_term', 'expval_term', 'term_list_corr'])),
            'offset': draw(st.integers(0, 4))}


def run_manybody(spec):
    from tenpy.networks.mps import MPS
    rng = np.random.default_rng(spec['seed'])
    with warnings.catch_warnings():
        warnings.simplefilter('ignore')
        sites = M.build_sites(spec['chain'])
        cfg = spec['chain']['cfg']
        L = len(sites)
        vec, q = M.random_state(sites, spec['seed'])
        psi = MPS.from_full(sites, M.to_npc_state(sites, vec, q), form='B', unit_cell_width=L)
        v = vec.reshape(-1)
        which = spec['which']
        tags = dict(which=which, hetero=len(set(cfg)) > 1)
        ferm_sites = [i for i in range(L) if M.fermionic_opnames(sites[i])]
        if len(ferm_sites) < 2:
            raise Skip()

        def fpair():
            """(op_i, i), (hc op, j) on two different fermionic sites of the same kind"""
            for _ in range(30):
                i, j = rng.choice(ferm_sites, size=2, replace=False)
                if cfg[i] != cfg[j]:
                    continue
                names = M.fermionic_opnames(sites[i])
                a = names[int(rng.integers(0, len(names)))]
                return (a, int(i)), (sites[i].get_hc_op_name(a), int(j))
            raise Skip()
        (a, i), (b, j) = fpair()
        nferm_between = sum(1 for k in range(min(i, j) + 1, max(i, j)) if k in ferm_sites)
        classes = ['which:' + which, 'hetero' if tags['hetero'] else 'homogeneous', 'fermions-between:%d' % min(nferm_between, 2)]

        def ev(term):
            return np.vdot(v, M.jw_term(sites, term) @ v)
        if which == 'expval_term':
            term = [(a, i), (b, j)]
            if rng.integers(0, 2):
                k = int(rng.integers(0, L))
                neutral = [n for n in sorted(sites[k].opnames) if not sites[k].op_needs_JW(n) and not n.startswith('JW') and not np.any(sites[k].get_op(n).qtotal)]
                term.insert(int(rng.integers(0, 3)), (neutral[int(rng.integers(0, len(neutral)))], k))
            got = psi.expectation_value_term(term)
            require(abs(got - ev(term)) <= 1e-9, 'expectation_value_term', 'term %r: %r vs reference %r' % (term, got, ev(term)), **tags)
        elif which in ('term_corr_right', 'term_corr_left', 'term_list_corr'):
            lo, hi = (i, a), (j, b)
            if i > j:
                lo, hi = (j, b), (i, a)
            # term_L located at `lo` through the offset i_L, term_R at `hi` through j_R; the order of the product is term_L term_R
            off = min(spec['offset'], lo[0])
            term_L = [(lo[1], lo[0] - off)]
            jR = hi[0]
            term_R = [(hi[1], 0)]
            ref = ev([(lo[1], lo[0]), (hi[1], hi[0])])
            if which == 'term_corr_right':
                got = psi.term_correlation_function_right(term_L, term_R, i_L=off, j_R=[jR])[0]
            elif which == 'term_corr_left':
                # fixed right term, moving left term
                offR = min(spec['offset'], hi[0])
                got = psi.term_correlation_function_left([(lo[1], 0)], [(hi[1], hi[0] - offR)], i_L=[lo[0]], j_R=offR)[0]
            else:
                from tenpy.networks.terms import TermList
                tl_L = TermList([term_L], [1.5])
                tl_R = TermList([term_R], [2.0])
                got = psi.term_list_correlation_function_right(tl_L, tl_R, i_L=off, j_R=[jR])[0] / 3.0
            require(abs(got - ref) <= 1e-9, 'term-correlation-function', '%s: ops %r at %r (offset %d): %r vs reference %r' % (which, (lo[1], hi[1]), (lo[0], hi[0]), off, got, ref),
                    offset=off > 0, **tags)
            if off > 0:
                classes.append('offset')
        else:
            term = [(a, i), (b, j)]
            off = min(spec['offset'], min(i, j))
            shifted = [(n, k - off) for n, k in term]
            ref = M.jw_term(sites, term) @ v
            if np.linalg.norm(ref) < 1e-6:
                raise Skip()  # the term annihilates the state (documented ValueError)
            phi = psi.copy()
            phi.apply_local_term(shifted, i_offset=off, canonicalize=True, renormalize=False)
            res = M.mps_to_dense(phi).reshape(-1)
            require(np.linalg.norm(res - ref) <= 1e-9 * max(1., np.linalg.norm(ref)), 'apply_local_term', 'term %r offset %d: |result - reference| = %r' % (term, off, np.linalg.norm(res - ref)),
                    offset=off > 0, **tags)
            if off > 0:
                classes.append('offset')
    return {'nontrivial': True, 'classes': classes}


SUBCHECKS.append(Sub('manybody', manybody_specs, run_manybody, quick=1200, thorough=60000))
