"""C20 - Caches and event dispatch obey their sequential spec under any schedule."""
import os
import shutil
import tempfile
import warnings

import numpy as np
from hypothesis import strategies as st

from vf.core import Sub, Violation, require, Skip

LEVEL = 'exploration'
RULE = ('cache_seq: generated histories (set/get/[]/del/in/len/iter/preload/set_short_term_keys/create_subcache/close, keys a-d, '
        'values ints / ndarrays / npc Arrays) against a dict model per (sub)cache, for the storages Storage, PickleStorage, '
        '_NumpyStorage, _NpcArrayStorage, Hdf5Storage. cache_sched: the same histories with use_threading=True while the harness '
        'owns the schedule of the worker thread (queue/Event/Thread of tenpy.tools.thread replaced by instrumented shims, one thread '
        'runs at a time, the next runnable thread and spurious timeouts are chosen by a generated choice list; no real waiting); '
        'verdicts: value mismatch, deadlock (blocking call without runnable peer), step limit; with an injected failure of the k-th '
        'disk operation the error must surface as WorkerDied/the error within the remaining calls and close() must return. '
        'events: histories of connect (direct / decorator forms, priority, extra_kwargs) / disconnect(id) / emit / emit_until_result / '
        'copy against a list model. Non-trivial: cache history reads a key after a later write/delete of that key or uses a '
        'short-term key / preload / sub-cache (scheduled: >= 1 switch to the worker between caller operations); events: >= 2 '
        'listeners and a disconnect or distinct priorities. Distinct = distinct canonical JSON spec.')
ASSUMPTIONS = ['pre-emption only at the synchronisation points of tenpy.tools.thread (dict operations are atomic under the GIL)']

KEYS = ['a', 'b', 'c', 'd']
STORAGES = ['Storage', 'PickleStorage', '_NumpyStorage', '_NpcArrayStorage', 'Hdf5Storage']


@st.composite
def cache_specs(draw, tier, threaded=False):
    storage = draw(st.sampled_from(STORAGES[1:] if threaded else STORAGES))
    n = draw(st.integers(1, 18))
    ops = []
    for _ in range(n):
        op = draw(st.sampled_from(['set', 'set', 'set', 'get', 'getitem', 'getitem', 'del', 'in', 'len', 'iter', 'preload', 'short', 'sub', 'get_default']))
        cache = draw(st.sampled_from([0, 0, 0, 0, 1, 2]))  # 0 = root cache, 1.. = sub-caches (created on demand)
        key = draw(st.sampled_from(['a', 'a', 'a', 'a', 'b', 'b', 'c', 'd']))  # a hot key makes read-after-write histories likely
        if op == 'set':
            ops.append([op, cache, key, draw(st.integers(0, 1000))])
        elif op in ('short', 'preload'):
            ops.append([op, cache, draw(st.lists(st.sampled_from(['a', 'a', 'b', 'c']), max_size=2, unique=True))])
        else:
            ops.append([op, cache, key])
    spec = {'storage': storage, 'ops': ops}
    if threaded:
        spec['sched'] = draw(st.lists(st.integers(0, 23), min_size=1, max_size=40))
        spec['max_queue_size'] = draw(st.sampled_from([1, 2, 2, 5]))
        spec['fault'] = draw(st.sampled_from([None, None, None, 0, 1, 2, 4]))
    return spec


def make_value(storage, v):
    if storage == '_NumpyStorage':
        return np.arange(4) + v
    if storage == '_NpcArrayStorage':
        from tenpy.linalg import np_conserved as npc
        ch = npc.ChargeInfo([1])
        leg = npc.LegCharge.from_qflat(ch, [0, 1, 1, 2])
        d = np.diag(np.arange(4.) + v + 1)
        return npc.Array.from_ndarray(d, [leg, leg.conj()], labels=['a', 'b'])
    if v % 3 == 0:
        return np.arange(3) * v
    if v % 3 == 1:
        return {'x': v, 'y': [v, v + 1]}
    return v


def same(a, b):
    from tenpy.linalg import np_conserved as npc
    if isinstance(a, npc.Array) or isinstance(b, npc.Array):
        return isinstance(a, npc.Array) and isinstance(b, npc.Array) and np.array_equal(a.to_ndarray(), b.to_ndarray()) and a.get_leg_labels() == b.get_leg_labels()
    if isinstance(a, np.ndarray) or isinstance(b, np.ndarray):
        return isinstance(a, np.ndarray) and isinstance(b, np.ndarray) and np.array_equal(a, b)
    return a == b


class FaultyStorage:
    """Wraps the disk storage: the k-th disk operation raises OSError (fault injection)."""

    def __init__(self, inner, counter, fault_at):
        self._inner = inner
        self._counter = counter
        self._fault_at = fault_at

    def _tick(self):
        k = self._counter[0]
        self._counter[0] += 1
        if self._fault_at is not None and k == self._fault_at:
            raise OSError('injected disk failure at disk operation %d' % k)

    def load(self, key):
        self._tick()
        return self._inner.load(key)

    def save(self, key, value):
        self._tick()
        return self._inner.save(key, value)

    def delete(self, key):
        self._tick()
        return self._inner.delete(key)

    def subcontainer(self, name):
        return FaultyStorage(self._inner.subcontainer(name), self._counter, self._fault_at)

    def __getattr__(self, name):
        return getattr(self._inner, name)

    def __bool__(self):
        return bool(self._inner)


def run_cache(spec, threaded=False):
    from tenpy.tools.cache import CacheFile, ThreadedStorage
    from tenpy.tools.thread import WorkerDied
    from vf import sched as vsched
    storage = spec['storage']
    tmp = tempfile.mkdtemp(prefix='vf-cache-')
    info = {'nontrivial': False, 'classes': ['storage:' + storage]}
    fault = spec.get('fault') if threaded else None
    try:
        with warnings.catch_warnings():
            warnings.simplefilter('ignore')
            kwargs = {}
            if storage in ('PickleStorage', '_NumpyStorage', '_NpcArrayStorage'):
                kwargs['directory'] = os.path.join(tmp, 'cache')
            elif storage == 'Hdf5Storage':
                kwargs['filename'] = os.path.join(tmp, 'cache.h5')
            if not threaded:
                cache = CacheFile.open(storage_class=storage, use_threading=False, **kwargs)
                _drive(cache, spec, storage, info, None, None)
            else:
                with vsched.installed(spec['sched']) as S:
                    counter = [0]
                    cache = CacheFile.open(storage_class=storage, use_threading=False, **kwargs)
                    disk = cache.long_term_storage
                    if fault is not None:
                        disk = FaultyStorage(disk, counter, fault)
                    cache.long_term_storage = ThreadedStorage.open(disk, max_queue_size=spec['max_queue_size'])
                    try:
                        _drive(cache, spec, storage, info, S, fault)
                    except vsched.Deadlock as e:
                        raise Violation('deadlock', str(e), storage=storage, fault=fault is not None)
                    except vsched.StepLimit as e:
                        raise Violation('livelock', str(e), storage=storage, fault=fault is not None)
                    info['classes'].append('switches>0' if S.switches else 'switches=0')
                    if S.timeouts_fired:
                        info['classes'].append('virtual-timeouts')
                    if fault is not None:
                        info['classes'].append('fault-injected' if counter[0] > fault else 'fault-not-reached')
                    info['nontrivial'] = info['nontrivial'] and S.switches > 0
    finally:
        shutil.rmtree(tmp, ignore_errors=True)
    return info


def _drive(cache, spec, storage, info, S, fault):
    from tenpy.tools.thread import WorkerDied
    tags = dict(storage=storage, threaded=S is not None)
    caches = {0: cache}
    models = {0: {}}
    short = {0: set()}
    written_then_changed = set()
    died = False
    entered = False
    try:
        cache.__enter__()
        entered = True
        for op in spec['ops']:
            name, ci = op[0], op[1]
            if ci not in caches:
                if name != 'sub' and len(caches) <= ci:
                    ci = 0
                else:
                    ci = len(caches)
                    caches[ci] = caches[0].create_subcache('sub%d' % ci)
                    models[ci] = {}
                    short[ci] = set()
                    info['nontrivial'] = True
                    info['classes'].append('subcache')
                    if name == 'sub':
                        continue
            c, m = caches[ci], models[ci]
            if name == 'sub':
                continue
            if name == 'set':
                val = make_value(storage, op[3])
                if op[2] in m:
                    written_then_changed.add((ci, op[2]))
                c[op[2]] = val
                m[op[2]] = make_value(storage, op[3])
            elif name == 'getitem':
                k = op[2]
                if k in m:
                    got = c[k]
                    require(same(got, m[k]), 'stale-or-wrong-read', 'cache[%r] returned %r, dict model has %r' % (k, got, m[k]), op='getitem', **tags)
                    if (ci, k) in written_then_changed:
                        info['nontrivial'] = True
                else:
                    try:
                        got = c[k]
                    except KeyError:
                        pass
                    else:
                        raise Violation('read-of-missing-key', 'cache[%r] returned %r although the key is not (or no longer) in the cache' % (k, got), op='getitem', **tags)
            elif name in ('get', 'get_default'):
                k = op[2]
                got = c.get(k, 'DEFAULT') if name == 'get_default' else c.get(k)
                exp = m.get(k, 'DEFAULT' if name == 'get_default' else None)
                require(same(got, exp), 'stale-or-wrong-read', 'cache.get(%r) returned %r, dict model has %r' % (k, got, exp), op='get', **tags)
            elif name == 'del':
                k = op[2]
                if k in m:  # sound domain: only existing keys are deleted
                    del c[k]
                    del m[k]
                    written_then_changed.add((ci, k))
            elif name == 'in':
                require((op[2] in c) == (op[2] in m), 'contains', 'key %r' % op[2], op='in', **tags)
            elif name == 'len':
                require(len(c) == len(m), 'len', '%d vs %d' % (len(c), len(m)), op='len', **tags)
            elif name == 'iter':
                require(sorted(c) == sorted(m), 'iter', '%s vs %s' % (sorted(c), sorted(m)), op='iter', **tags)
                require(sorted(c.keys()) == sorted(m.keys()), 'keys', '', op='iter', **tags)
            elif name == 'preload':
                c.preload(*op[2])
                info['nontrivial'] = info['nontrivial'] or bool(op[2])
                info['classes'].append('preload')
            elif name == 'short':
                c.set_short_term_keys(*op[2])
                info['nontrivial'] = info['nontrivial'] or bool(op[2])
                info['classes'].append('short_term_keys')
        # final full scan of every cache against its model
        for ci, c in caches.items():
            m = models[ci]
            require(sorted(c) == sorted(m), 'final-keys', 'cache %d: %s vs %s' % (ci, sorted(c), sorted(m)), op='scan', **tags)
            for k in m:
                got = c[k]
                require(same(got, m[k]), 'stale-or-wrong-read', 'final scan: cache[%r] returned %r, dict model has %r' % (k, got, m[k]), op='scan', **tags)
    except WorkerDied:
        died = True
        if fault is None:
            raise Violation('worker-died-without-fault', 'WorkerDied although no failure was injected', **tags)
    except OSError as e:
        if 'injected' not in str(e):
            raise
        died = True
    except (AssertionError, KeyError, ValueError, EOFError) as e:
        # with an injected disk failure any error in the caller counts as "surfaced" (the property only excludes hangs
        # and silently wrong data); without a fault it is an ordinary violation
        if fault is None or isinstance(e, Violation):
            raise
        died = True
        info['classes'].append('fault-surfaced-as-' + type(e).__name__)
    finally:
        if entered:
            # closing must be clean and must return
            cache.__exit__(None, None, None)
    if S is not None and fault is not None:
        info['classes'].append('fault-surfaced' if died else 'fault-not-surfaced-within-history')
    require(not bool(cache), 'cache-still-open-after-close', '', op='close', **tags)
    for ci, c in caches.items():
        if ci == 0:
            continue
        try:
            c['a'] = 1
        except (ValueError, Exception):
            pass
    return info


def run_cache_seq(spec):
    return run_cache(spec, threaded=False)


def run_cache_sched(spec):
    return run_cache(spec, threaded=True)


# ------------------------------------------------------------------------------------------------
# events


@st.composite
def event_specs(draw, tier):
    n = draw(st.integers(1, 12))
    ops = []
    for _ in range(n):
        op = draw(st.sampled_from(['connect', 'connect', 'connect', 'connect_deco', 'connect_deco_plain', 'disconnect', 'emit', 'emit', 'emit_until', 'copy']))
        if op.startswith('connect'):
            ops.append([op, draw(st.integers(-2, 3)), draw(st.sampled_from([None, {'extra': 1}, {'extra': 2}])), draw(st.sampled_from([None, None, 'r1', 'r2']))])
        elif op == 'disconnect':
            ops.append([op, draw(st.integers(0, 11))])
        else:
            ops.append([op, draw(st.integers(0, 5))])
    return {'ops': ops}


def run_events(spec):
    from tenpy.tools.events import EventHandler
    ev = EventHandler('x')
    model = []  # [id, tag, priority, extra, ret]
    log = []
    next_id = 0
    handlers = [(ev, model)]
    n_disc = 0

    def mk(tag, ret):
        def cb(x, extra=0):
            log.append((tag, x, extra))
            return ret
        return cb

    def expected(m):
        return sorted(m, key=lambda l: -l[2])  # python's sort is stable: connection order among equal priorities

    with warnings.catch_warnings():
        warnings.simplefilter('ignore')
        for op in spec['ops']:
            name = op[0]
            h, m = handlers[-1]
            if name.startswith('connect'):
                prio, extra, ret = op[1], op[2], op[3]
                tag = 'L%d' % len(log) + '_%d' % sum(len(mm) for _, mm in handlers) + '_%d' % next_id
                cb = mk(tag, ret)
                if name == 'connect':
                    r = h.connect(cb, prio, extra)
                    require(r is cb, 'connect-returns-callback', '', op=name)
                elif name == 'connect_deco':
                    r = h.connect(priority=prio, extra_kwargs=extra)(cb)
                    require(r is cb, 'connect-returns-callback', '', op=name)
                else:
                    prio, extra = 0, None
                    r = h.connect(cb)
                    require(r is cb, 'connect-returns-callback', '', op=name)
                lid = len([1 for _ in range(1)]) and None
                # ids are assigned consecutively per handler (copy keeps the counter)
                my_id = h.id_of_last_connected
                m.append([my_id, tag, prio, (extra or {}).get('extra', 0), ret])
            elif name == 'disconnect':
                if not m:
                    continue
                lid = m[op[1] % len(m)][0]
                h.disconnect(lid)
                before = len(m)
                m[:] = [l for l in m if l[0] != lid]
                n_disc += 1
                ids_now = sorted(l.listener_id for l in h.listeners)
                require(ids_now == sorted(l[0] for l in m), 'disconnect-removed-wrong-listener',
                        'disconnect(%d): remaining listener ids %s, expected %s' % (lid, ids_now, sorted(l[0] for l in m)), op=name)
            elif name in ('emit', 'emit_until'):
                del log[:]
                x = op[1]
                exp = expected(m)
                if name == 'emit':
                    res = h.emit(x)
                    require([l[0] for l in log] == [l[1] for l in exp], 'emit-order', 'called %s expected %s' % ([l[0] for l in log], [l[1] for l in exp]), op=name)
                    require(res == [l[4] for l in exp], 'emit-results', '%s vs %s' % (res, [l[4] for l in exp]), op=name)
                else:
                    res = h.emit_until_result(x)
                    called = []
                    expres = None
                    for l in exp:
                        called.append(l[1])
                        if l[4] is not None:
                            expres = l[4]
                            break
                    require([l[0] for l in log] == called, 'emit_until_result-order', 'called %s expected %s' % ([l[0] for l in log], called), op=name)
                    require(res == expres, 'emit_until_result-result', '%r vs %r' % (res, expres), op=name)
                for (tag, xx, extra), l in zip(log, exp):
                    require(xx == x and extra == l[3], 'emit-arguments', 'listener %s got x=%r extra=%r expected extra=%r' % (tag, xx, extra, l[3]), op=name)
            elif name == 'copy':
                cp = h.copy()
                handlers.append((cp, [list(l) for l in m]))
        # all handlers: final emit, the originals must not have been affected by operations on copies
        for h, m in handlers:
            del log[:]
            h.emit(99)
            require([l[0] for l in log] == [l[1] for l in expected(m)], 'final-emit-order', 'called %s expected %s' % ([l[0] for l in log], [l[1] for l in expected(m)]), op='final')
    prios = set(l[2] for _, m in handlers for l in m)
    return {'nontrivial': sum(len(m) for _, m in handlers) >= 2 and (n_disc > 0 or len(prios) >= 2), 'classes': ['disconnects' if n_disc else 'no-disconnect']}


SUBCHECKS = [
    Sub('cache_seq', lambda tier: cache_specs(tier, False), run_cache_seq, quick=1500, thorough=60000),
    Sub('cache_sched', lambda tier: cache_specs(tier, True), run_cache_sched, quick=6000, thorough=100000),
    Sub('events', event_specs, run_events, quick=3000, thorough=100000),
]
