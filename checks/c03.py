"""C03 - Operations never corrupt their operands or shared charge data."""
from vf.core import Sub
from vf import npcprog, inv

LEVEL = 'exploration'
RULE = ('Generated operation histories over tensors that share LegCharge objects (pool legs, partners built on the same '
        'leg objects), explicit shallow/deep copies and results documented as copies; before every step every live tensor '
        '(dense bytes, labels, qtotal, dtype, leg identities) and every reachable LegCharge/LegPipe (slices, charges, qconj, '
        'pipe tables) is fingerprinted, after the step everything except the documented target of an in-place method must '
        'be unchanged; leg objects must never change; members of documented shallow-copy alias groups are exempt (they leave '
        'the pool once their partner is modified in place). Non-trivial: an executed in-place step (or a step on a tensor '
        'with a live documented-copy partner) on a multi-block tensor while >= 2 tensors are live. cy and py kernels.')
ASSUMPTIONS = ['which results are documented shallow copies (copy(deep=False), add_trivial_leg, gauge_total_charge, replace_label, '
               'unary/binary_blockwise, sort_legcharge, concatenate(copy=False)) is taken from the docstrings']

WEIGHTS = {'transpose': 6, 'setitem': 6, 'iproject': 5, 'add': 6, 'scale': 4, 'scale_axis': 4, 'conj': 4, 'copy': 4, 'purge': 2,
           'unary': 3, 'labels': 3, 'gauge': 2, 'sort_legcharge': 2, 'new_like': 3, 'astype': 2, 'tensordot': 4, 'inner': 3}
INPLACE = {'transpose', 'setitem', 'iproject', 'add', 'scale', 'scale_axis', 'conj', 'purge', 'unary', 'labels'}


def strategy(tier):
    return npcprog.program_specs(tier, max_ops=12, weights=WEIGHTS)


def run(spec):
    it = npcprog.Interp(spec, check_dense=True, check_alias=True)
    it.lenient_dtype = True
    it.run()
    ops = it.ops_done
    nontrivial = it.nontrivial_ops > 0 and len(it.live) >= 2 and any(o in INPLACE for o in ops)
    return {'nontrivial': nontrivial, 'classes': sorted(it.classes) + ['op:' + o for o in set(ops)]}


SUBCHECKS = [Sub('alias_histories', strategy, run, quick=2400, thorough=80000, configs=('cy', 'py'))]


# ------------------------------------------------------------------------------------------------
# tensors stored inside an MPS / MPO

import warnings  # noqa: E402

import numpy as np  # noqa: E402
from hypothesis import strategies as st  # noqa: E402

from vf.core import require, Skip  # noqa: E402
from vf import mps as M  # noqa: E402

NET_OPS = ['get_theta1', 'get_theta2', 'get_B_copy', 'make_U_I', 'make_U_II', 'measure', 'copy_mutate', 'apply_naively', 'constructor', 'add_dagger', 'env',
           'segment_env']


@st.composite
def network_specs(draw, tier):
    L = draw(st.integers(3, 5))
    return {'L': L, 'conserve': draw(st.sampled_from([None, 'parity'])), 'g': draw(st.sampled_from([0.0, 0.7, 1.5])), 'seed': draw(st.integers(0, 2 ** 20)),
            'forms': [draw(st.sampled_from(['A', 'B', 'C', 'G', 'Th'])) for _ in range(L)], 'center': draw(st.integers(0, L - 1)), 'mixed': draw(st.booleans()),
            'cplx_H': draw(st.booleans()),
            'ops': [{'op': draw(st.sampled_from(NET_OPS)), 'i': draw(st.integers(0, L - 1)), 'how': draw(st.integers(0, 5)), 'dt': draw(st.sampled_from([[0.1, 0], [0, -0.1], [0.05, 0.05]]))}
                    for _ in range(draw(st.integers(2, 6)))]}


def fingerprint_psi(psi):
    return {'B': [(b.to_ndarray().copy(), tuple(b.get_leg_labels()), tuple(b.qtotal), len(b._data), b._qdata.shape) for b in psi._B],
            'S': [np.array(s, copy=True) for s in psi._S], 'form': list(psi.form), 'norm': psi.norm, 'legs': [[id(l) for l in b.legs] for b in psi._B],
            'legdata': [[(l.slices.copy(), l.charges.copy(), l.qconj) for l in b.legs] for b in psi._B],
            'boundaries': [None if b is None else (b.to_ndarray().copy(), tuple(b.get_leg_labels()), tuple(b.qtotal)) for b in getattr(psi, 'segment_boundaries', (None, None))]}


def fingerprint_mpo(H):
    return {'W': [(w.to_ndarray().copy(), tuple(w.get_leg_labels()), len(w._data), w._qdata.shape) for w in H._W], 'IdL': list(H.IdL), 'IdR': list(H.IdR),
            'legdata': [[(l.slices.copy(), l.charges.copy(), l.qconj) for l in w.legs] for w in H._W]}


def same_fp(a, b):
    if isinstance(a, dict):
        return set(a) == set(b) and all(same_fp(a[k], b[k]) for k in a)
    if isinstance(a, (list, tuple)):
        return len(a) == len(b) and all(same_fp(x, y) for x, y in zip(a, b))
    if isinstance(a, np.ndarray):
        return a.shape == np.shape(b) and np.array_equal(a, b)
    return a == b


def mutate(arr, how, rng):
    """in-place operations on an Array the caller owns"""
    if arr.size == 0 or len(arr._data) == 0:
        return
    if how == 0:
        arr *= 2.5
    elif how == 1:
        arr.iscale_prefactor(-0.5)
    elif how == 2:
        arr += arr
    elif how == 3:
        arr.iadd_prefactor_other(0.3, arr.copy())
    elif how == 4:
        arr._data[0][...] = 7.  # the blocks of a new tensor are its own
    else:
        arr.iscale_axis(np.arange(1, arr.shape[0] + 1, dtype=float), 0)


def run_network(spec):
    from tenpy.models.tf_ising import TFIChain
    from tenpy.networks.mps import MPS, MPSEnvironment
    from tenpy.networks.mpo import MPOEnvironment
    rng = np.random.default_rng(spec['seed'])
    with warnings.catch_warnings():
        warnings.simplefilter('ignore')
        L = spec['L']
        model = TFIChain({'L': L, 'J': 1., 'g': spec['g'], 'bc_MPS': 'finite', 'conserve': spec['conserve']})
        H = model.H_MPO
        if spec['cplx_H']:
            H = H.copy()
            for i in range(L):
                H.set_W(i, H.get_W(i).astype(np.complex128))
            H.dtype = np.dtype(np.complex128)
        sites = model.lat.mps_sites()
        vec, q = M.random_state(sites, spec['seed'], cplx=bool(spec['seed'] % 2))
        psi = MPS.from_full(sites, M.to_npc_state(sites, vec, q), form='B', unit_cell_width=L)
        if spec['mixed']:
            c = spec['center']
            psi.convert_form(['A'] * c + ['Th'] + ['B'] * (L - c - 1))
        else:
            psi.convert_form(spec['forms'])
        classes = ['form:%s' % ('mixed' if spec['mixed'] else 'generated')]
        for o in spec['ops']:
            fp_psi, fp_H = fingerprint_psi(psi), fingerprint_mpo(H)
            op, i, how = o['op'], o['i'], o['how']
            dt = complex(*o['dt'])
            if dt.imag == 0:
                dt = dt.real
            tags = dict(op=op)
            if op == 'get_theta1':
                th = psi.get_theta(i, n=1)
                mutate(th, how, rng)
                tags['form'] = str(psi.form[i])
            elif op == 'get_theta2':
                if i >= L - 1:
                    continue
                th = psi.get_theta(i, n=2, formL=[1., 0., 0.5][how % 3], formR=[1., 0.][how % 2])
                mutate(th, how, rng)
            elif op == 'get_B_copy':
                B = psi.get_B(i, form=['A', 'B', 'C', 'G', 'Th', None][how], copy=True)
                mutate(B, how, rng)
                tags['form'] = str(psi.form[i])
            elif op in ('make_U_I', 'make_U_II'):
                if spec['conserve'] is None or True:
                    U = H.make_U(dt, 'I' if op == 'make_U_I' else 'II')
                    mutate(U.get_W(i), how, rng)
                    tags['real_dt'] = not isinstance(dt, complex)
            elif op == 'measure':
                psi.expectation_value('Sigmaz')
                psi.correlation_function('Sigmaz', 'Sigmaz')
                psi.entanglement_entropy()
                H.expectation_value(psi)
                psi.overlap(psi)
                if L >= 3:
                    psi.get_rho_segment([0, 1])
                psi.norm_test()
            elif op == 'copy_mutate':
                phi = psi.copy()
                phi.apply_local_op(i, 'Sigmaz', unitary=True)
                mutate(phi.get_B(i, form=None, copy=False), how, rng)
                phi.canonical_form()
                # (MPO.copy() is documented as a shallow copy)
            elif op == 'apply_naively':
                phi = psi.copy()
                H.apply_naively(phi)
                mutate(phi.get_B(i, form=None, copy=False), how, rng)
            elif op == 'constructor':
                Bs = [psi.get_B(k, form='B', copy=True) for k in range(L)]
                Ss = [np.array(psi.get_SL(k), copy=True) for k in range(L)] + [np.array(psi.get_SR(L - 1), copy=True)]
                phi = MPS(sites, Bs, Ss, bc='finite', form='B', unit_cell_width=L)
                fp_phi = fingerprint_psi(phi)
                mutate(Bs[i], how, rng)
                Ss[i][...] = 3.
                require(same_fp(fingerprint_psi(phi), fp_phi), 'constructor-shares-input', 'modifying the tensors passed to MPS(...) changed the MPS', **tags)
            elif op == 'add_dagger':
                S2 = H + H
                D = H.dagger()
                mutate(S2.get_W(i), how, rng)
                mutate(D.get_W(i), how, rng)
            elif op == 'env':
                env = MPOEnvironment(psi, H, psi)
                LP = env.get_LP(i)
                mutate(LP, how, rng)
                env2 = MPSEnvironment(psi, psi)
                mutate(env2.get_RP(i), how, rng)
            elif op == 'segment_env':
                # segment states (one of them with non-trivial segment_boundaries) as operands of environments / overlaps
                first = min(i, L - 3)
                last = first + 1 + (how % (L - 1 - first))
                seg = psi.extract_segment(first, last)
                ket = seg.copy()
                ket.apply_local_op(how % ket.L, 'Sigmaz', unitary=False)
                if how % 2:
                    ket.canonical_form()
                tags['boundaries'] = [b is not None for b in ket.segment_boundaries]
                fp_seg, fp_ket = fingerprint_psi(seg), fingerprint_psi(ket)
                for bra_, ket_ in [(seg, ket), (ket, seg), (ket, ket), (seg, ket)]:
                    env = MPSEnvironment(bra_, ket_)
                    env.get_RP(0)
                    env.get_LP(seg.L - 1)
                    env.full_contraction(0)
                    bra_.overlap(ket_)
                    require(same_fp(fingerprint_psi(ket), fp_ket) and same_fp(fingerprint_psi(seg), fp_seg), 'segment-operand-changed',
                            'a segment MPS (segment_boundaries of the second one: %r) changed by building an environment / overlap' % (tags['boundaries'],), **tags)
                require(same_fp(fingerprint_psi(seg), fp_seg), 'segment-operand-changed', 'the segment MPS without boundaries changed by building environments / overlaps', **tags)
                require(same_fp(fingerprint_psi(ket), fp_ket), 'segment-operand-changed', 'the segment MPS (segment_boundaries %r) changed by building environments / overlaps'
                        % (tags['boundaries'],), **tags)
                seg.test_sanity()
                ket.test_sanity()
            classes.append('op:' + op)
            new_psi, new_H = fingerprint_psi(psi), fingerprint_mpo(H)
            require(same_fp(new_psi, fp_psi), 'mps-operand-changed', 'after %s(i=%d, how=%d) the MPS (forms %r) changed although only the returned object was modified' % (op, i, how, fp_psi['form']), **tags)
            require(same_fp(new_H, fp_H), 'mpo-operand-changed', 'after %s(i=%d, dt=%r) the W tensors of H changed' % (op, i, dt), **tags)
            for w in H._W:
                w.test_sanity()
            psi.test_sanity()
    return {'nontrivial': True, 'classes': sorted(set(classes))}


SUBCHECKS.append(Sub('network_histories', network_specs, run_network, quick=600, thorough=40000, configs=('cy',)))
