"""C03 - Operations never corrupt their operands or shared charge data."""
from vf.core import Sub
from vf import npcprog, inv

LEVEL = 'exploration'
RULE = ('Generated operation histories over tensors that share LegCharge objects (pool legs, partners built on the same '
        'leg objects), explicit shallow/deep copies and results documented as copies; before every step every live tensor '
        '(dense bytes, labels, qtotal, dtype, leg identities) and every reachable LegCharge/LegPipe (slices, charges, qconj, '
        'pipe tables) is fingerprinted, after the step everything except the documented target of an in-place method must '
        'be unchanged; leg objects must never change; members of documented shallow-copy alias groups are exempt (they leave '
        'the pool once their partner is modified in place). Non-trivial: an executed in-place step (or a step on a tensor '
        'with a live documented-copy partner) on a multi-block tensor while >= 2 tensors are live. cy and py kernels.')
ASSUMPTIONS = ['which results are documented shallow copies (copy(deep=False), add_trivial_leg, gauge_total_charge, replace_label, '
               'unary/binary_blockwise, sort_legcharge, concatenate(copy=False)) is taken from the docstrings']

WEIGHTS = {'transpose': 6, 'setitem': 6, 'iproject': 5, 'add': 6, 'scale': 4, 'scale_axis': 4, 'conj': 4, 'copy': 4, 'purge': 2,
           'unary': 3, 'labels': 3, 'gauge': 2, 'sort_legcharge': 2, 'new_like': 3, 'astype': 2, 'tensordot': 4, 'inner': 3}
INPLACE = {'transpose', 'setitem', 'iproject', 'add', 'scale', 'scale_axis', 'conj', 'purge', 'unary', 'labels'}


def strategy(tier):
    return npcprog.program_specs(tier, max_ops=12, weights=WEIGHTS)


def run(spec):
    it = npcprog.Interp(spec, check_dense=True, check_alias=True)
    it.lenient_dtype = True
    it.run()
    ops = it.ops_done
    nontrivial = it.nontrivial_ops > 0 and len(it.live) >= 2 and any(o in INPLACE for o in ops)
    return {'nontrivial': nontrivial, 'classes': sorted(it.classes) + ['op:' + o for o in set(ops)]}


SUBCHECKS = [Sub('alias_histories', strategy, run, quick=2400, thorough=80000, configs=('cy', 'py'))]
