"""C19 - Lattice geometry: index maps are bijections and couplings are enumerated exactly."""
import itertools
import warnings

import numpy as np

from vf.core import Sub, Violation, require, Skip

LEVEL = 'exploration'
RULE = ('Enumerated lattices: classes Chain, Ladder, NLegLadder, Square, Triangular, Honeycomb, Kagome with sizes up to 3x3 unit '
        'cells (thorough 4x4), every named order of the class + tuple orders + a custom permutation, every bc combination (open / '
        'periodic / shift +-1, +-2 ...), finite and infinite MPS, plus IrregularLattice (removed/added sites), HelicalLattice and '
        'MultiSpeciesLattice variants. Per lattice: index-map round trips (incl. +-N_sites for infinite), mps_idx_fix_u/mps_sites, '
        'mps2lat_values(_masked), every (u1,u2,dx) with |dx_a| <= L_a compared with a brute-force enumeration over all coordinates '
        'under the boundary conditions (multiset of (i,j), one unit cell per coupling, lat_indices bijective onto coupling_shape), '
        'sampled 3-4 site multi-couplings, predefined pairs vs Euclidean distances, distance(). Every enumerated lattice counts as '
        'non-trivial; coupling cases that wrap or are cut by an open boundary are tallied. Distinct = distinct lattice spec.')
ASSUMPTIONS = ['bc shift convention as documented: going once around direction a>0 shifts x_0 by -shift']
EXHAUSTIVE = {'quick': False, 'thorough': False}

CLASSES = {
    'Chain': dict(dim=1, Lu=1, orders=['default', 'folded', 'snake', 'Fstyle']),
    'Ladder': dict(dim=1, Lu=2, orders=['default', 'folded', 'snake', 'Fstyle', 'snakeFstyle']),
    'NLegLadder': dict(dim=1, Lu=None, orders=['default', 'folded', 'snake']),
    'Square': dict(dim=2, Lu=1, orders=['default', 'snake', 'Fstyle', 'snakeFstyle']),
    'Triangular': dict(dim=2, Lu=1, orders=['default', 'snake', 'Fstyle']),
    'Honeycomb': dict(dim=2, Lu=2, orders=['default', 'rings', 'snake', 'snake_rings', 'Cstyle', 'Fstyle', 'snakeFstyle']),
    'Kagome': dict(dim=2, Lu=3, orders=['default', 'rings', 'Cstyle', 'snake', 'Fstyle']),
}


def enum_lattices(tier, shard, nshards, seed):
    rng = np.random.default_rng(seed)
    Lmax = 4 if tier == 'thorough' else 3
    k = 0
    for name, info in CLASSES.items():
        dim = info['dim']
        sizes = [(L,) for L in range(1, Lmax + 2)] if dim == 1 else list(itertools.product(range(1, Lmax + 1), repeat=2))
        for Ls in sizes:
            Ns = [None] if name != 'NLegLadder' else [2, 3, 4]
            for N in Ns:
                Lu = info['Lu'] if N is None else N
                orders = list(info['orders'])
                nd = dim if name in ('Chain', 'Square', 'Triangular') else dim + 1  # SimpleLattice: tuple orders without the u entry
                orders.append(['standard', [bool(x) for x in rng.integers(0, 2, size=nd)], [float(x) for x in rng.permutation(nd)]])
                if Lu >= 2 and dim == 2:
                    groups = [[0], list(range(1, Lu))] if rng.integers(0, 2) else [list(range(Lu))[::-1]]
                    orders.append(['grouped', groups])
                orders.append(['perm', int(rng.integers(0, 10 ** 6))])
                if dim == 1:
                    bcs = [['open'], ['periodic']]
                else:
                    shifts = [1, -1] + ([2, -2] if Ls[1] >= 2 else [])
                    bcs = [[a, b] for a in ('open', 'periodic') for b in ['open', 'periodic'] + shifts]
                for order in orders:
                    for bc in bcs:
                        for bc_MPS in ('finite', 'infinite'):
                            if bc_MPS == 'infinite' and bc[0] == 'open':
                                continue
                            k += 1
                            if tier == 'quick' and name in ('Honeycomb', 'Kagome', 'NLegLadder') and (k // nshards) % 2 == 1:
                                continue  # quick: every second configuration of the big unit cells
                            if k % nshards == shard:
                                yield {'cls': name, 'Ls': list(Ls), 'N': N, 'order': order, 'bc': bc, 'bc_MPS': bc_MPS, 'seed': int(rng.integers(0, 10 ** 6)),
                                       'variant': 'regular'}
    # derived lattices
    for v in range(240 if tier == 'quick' else 2400):
        k += 1
        if k % nshards != shard:
            rng.integers(0, 10, size=8)
            continue
        name = ['Chain', 'Ladder', 'Square', 'Honeycomb', 'Triangular'][int(rng.integers(0, 5))]
        dim = CLASSES[name]['dim']
        Ls = [int(rng.integers(2, 5))] if dim == 1 else [int(rng.integers(2, 4)), int(rng.integers(2, 4))]
        variant = ['irregular', 'helical', 'multispecies'][v % 3]
        if variant == 'helical' and dim == 1:
            name, dim, Ls = 'Square', 2, [1, int(rng.integers(2, 5))]
        bc = ['periodic'] if dim == 1 else ['periodic', ['open', 'periodic'][int(rng.integers(0, 2))]]
        bc_MPS = ['finite', 'infinite'][int(rng.integers(0, 2))]
        if variant == 'helical':
            bc = ['periodic', -1]
            bc_MPS = 'infinite'
            Ls = [1, Ls[1]]
        yield {'cls': name, 'Ls': Ls, 'N': None, 'order': 'Cstyle' if variant == 'helical' else 'default', 'bc': bc if rng.integers(0, 3) or variant == 'helical' else (['open'] * dim if bc_MPS == 'finite' else bc),
               'bc_MPS': bc_MPS, 'seed': int(rng.integers(0, 10 ** 6)), 'variant': variant}


def build_lattice(spec):
    from tenpy.models import lattice
    cls = getattr(lattice, spec['cls'])
    order = spec['order']
    kw = dict(bc=spec['bc'][0] if len(spec['bc']) == 1 and False else list(spec['bc']), bc_MPS=spec['bc_MPS'])
    perm_seed = None
    if isinstance(order, list) and order[0] == 'perm':
        perm_seed = order[1]
        order = 'default'
    elif isinstance(order, list):
        order = tuple(order)
    kw['order'] = order
    Ls = spec['Ls']
    site = None
    if spec.get('variant') in ('helical', 'multispecies'):
        from tenpy.networks.site import SpinHalfSite
        site = SpinHalfSite(None)
    if spec['cls'] == 'NLegLadder':
        lat = cls(Ls[0], spec['N'], site, **kw)
    elif CLASSES[spec['cls']]['dim'] == 1:
        lat = cls(Ls[0], site, **kw)
    else:
        lat = cls(Ls[0], Ls[1], site, **kw)
    if perm_seed is not None:
        rng = np.random.default_rng(perm_seed)
        lat.order = lat.order[rng.permutation(lat.N_sites)]
        lat.test_sanity()
    return lat


# ------------------------------------------------------------------------------------------------
# brute-force reference


def ref_target(lat, x, dx):
    """Target cell of x + dx under the boundary conditions: (cell coordinates, unit-cell shift along x_0) or None."""
    Ls = np.array(lat.Ls)
    t = np.array(x) + np.array(dx)
    if lat.bc_shift is not None:
        for a in range(1, lat.dim):
            w = t[a] // Ls[a]
            t[0] -= w * lat.bc_shift[a - 1]
    cell_shift = 0
    for a in range(lat.dim):
        if 0 <= t[a] < Ls[a]:
            continue
        if lat.bc[a]:  # open
            return None
        w = t[a] // Ls[a]
        t[a] -= w * Ls[a]
        if a == 0:
            cell_shift = w
    return t, int(cell_shift)


def ref_couplings(lat, u1, u2, dx, present=None):
    """Multiset of (i, j) MPS index pairs, brute force over all cells."""
    out = []
    infinite = lat.bc_MPS != 'finite'
    lat2mps = {tuple(int(v) for v in row): i for i, row in enumerate(lat.order)}
    N = lat.N_sites
    for x in itertools.product(*[range(L) for L in lat.Ls]):
        src = tuple(x) + (u1,)
        if src not in lat2mps:
            continue
        r = ref_target(lat, x, dx)
        if r is None:
            continue
        t, cs = r
        tgt = tuple(int(v) for v in t) + (u2,)
        if tgt not in lat2mps:
            continue
        i, j = lat2mps[src], lat2mps[tgt]
        if infinite:
            j += cs * N
            m = min(i, j)
            sh = (m % N) - m
            i, j = i + sh, j + sh
        # for a finite MPS with periodic x the target simply wraps
        out.append((i, j))
    return sorted(out)


def check_index_maps(lat, tags):
    N = lat.N_sites
    order = lat.order
    rows = [tuple(int(v) for v in r) for r in order]
    require(len(set(rows)) == N, 'order-not-injective', '', **tags)
    if not tags.get('irregular'):
        full = set(itertools.product(*[range(s) for s in lat.shape]))
        require(set(rows) == full, 'order-not-a-permutation-of-all-sites', '', **tags)
    inf = lat.bc_MPS != 'finite'
    rng_i = range(-N, 2 * N) if inf else range(N)
    for i in rng_i:
        li = lat.mps2lat_idx(i)
        require(int(lat.lat2mps_idx(li)) == i, 'lat2mps(mps2lat(i))!=i', 'i=%d lat=%s -> %s' % (i, li, lat.lat2mps_idx(li)), **tags)
        base = rows[i % N]
        exp = list(base)
        exp[0] += (i // N) * lat.N_rings
        require([int(v) for v in li] == exp, 'mps2lat_idx', 'i=%d: %s vs %s' % (i, li, exp), **tags)
    arr = np.arange(N)
    require(np.array_equal(lat.lat2mps_idx(lat.mps2lat_idx(arr)), arr), 'index-map-vectorized', '', **tags)
    for r_i, row in enumerate(rows):
        require(int(lat.lat2mps_idx(np.array(row))) == r_i, 'lat2mps_idx', '', **tags)
        if inf:
            row2 = list(row)
            row2[0] += 2 * lat.Ls[0]
            require(int(lat.lat2mps_idx(np.array(row2))) == r_i + 2 * N, 'lat2mps_idx-shifted', '', **tags)
            row3 = list(row)
            row3[0] -= lat.Ls[0]
            require(int(lat.lat2mps_idx(np.array(row3))) == r_i - N, 'lat2mps_idx-shifted', '', **tags)
    # mps_idx_fix_u, mps_sites
    allidx = []
    for u in range(len(lat.unit_cell)):
        idx = lat.mps_idx_fix_u(u)
        exp = [i for i, r in enumerate(rows) if r[-1] == u]
        require([int(v) for v in idx] == exp, 'mps_idx_fix_u', 'u=%d' % u, **tags)
        mi, li = lat.mps_lat_idx_fix_u(u)
        require(np.array_equal(li, order[mi, :-1]), 'mps_lat_idx_fix_u', '', **tags)
        allidx.extend(exp)
    require(sorted(allidx) == list(range(N)), 'mps_idx_fix_u-partition', '', **tags)
    require(sorted(int(v) for v in lat.mps_idx_fix_u(None)) == list(range(N)), 'mps_idx_fix_u(None)', '', **tags)
    sites = lat.mps_sites()
    require(len(sites) == N and all(s is lat.unit_cell[r[-1]] for s, r in zip(sites, rows)), 'mps_sites', '', **tags)


def check_values(lat, rng, tags):
    N = lat.N_sites
    rows = [tuple(int(v) for v in r) for r in lat.order]
    if not tags.get('irregular') and not tags.get('helical'):
        A = rng.normal(size=N)
        R = lat.mps2lat_values(A)
        from tenpy.models.lattice import SimpleLattice
        simple = isinstance(lat, SimpleLattice)  # documented: u is dropped for a SimpleLattice
        cut = (lambda r: r[:-1]) if simple else (lambda r: r)
        require(R.shape == (tuple(lat.Ls) if simple else tuple(lat.shape)), 'mps2lat_values-shape', '%s' % (R.shape,), **tags)
        for i, r in enumerate(rows):
            require(R[cut(r)] == A[i], 'mps2lat_values', 'site %s' % (r,), **tags)
        B = rng.normal(size=(2, N, N))
        R2 = lat.mps2lat_values(B, axes=[1, -1])
        for _ in range(5):
            i, j = int(rng.integers(0, N)), int(rng.integers(0, N))
            require(R2[(1,) + cut(rows[i]) + cut(rows[j])] == B[1, i, j], 'mps2lat_values-axes', '', **tags)
        for u in range(len(lat.unit_cell)):
            idx = lat.mps_idx_fix_u(u)
            Ru = lat.mps2lat_values(A[idx], u=u)
            require(Ru.shape == tuple(lat.Ls), 'mps2lat_values-u-shape', '', **tags)
            for i in idx:
                require(Ru[rows[i][:-1]] == A[i], 'mps2lat_values-u', '', **tags)
    if tags.get('helical'):
        return
    # masked version with arbitrary index sets
    inf = lat.bc_MPS != 'finite'
    lo, hi = (-N, 2 * N) if inf and not tags.get('irregular') else (0, N)
    m = int(rng.integers(1, min(hi - lo, 12) + 1))
    inds = np.sort(rng.permutation(np.arange(lo, hi))[:m]) if rng.integers(0, 2) else rng.permutation(np.arange(lo, hi))[:m]
    vals = rng.normal(size=(len(inds), 2))
    include_u = [None, True, False][int(rng.integers(0, 3))] if len(lat.unit_cell) == 1 else [None, True][int(rng.integers(0, 2))]
    R = lat.mps2lat_values_masked(vals, axes=0, mps_inds=inds, include_u=include_u)
    with_u = include_u if include_u is not None else len(lat.unit_cell) > 1
    count = 0
    xmin = min(int(lat.mps2lat_idx(int(i))[0]) for i in inds)
    for k, i in enumerate(inds):
        li = [int(v) for v in lat.mps2lat_idx(int(i))]
        key = tuple(li if with_u else li[:-1])
        v = R[key]
        require(not np.ma.is_masked(v) and np.allclose(np.asarray(v), vals[k]), 'mps2lat_values_masked-value',
                'mps index %d (lattice %s): %s vs %s; inds=%s' % (i, key, v, vals[k], inds.tolist()), **tags)
    require(int(np.sum(~np.ma.getmaskarray(R))) == vals.size, 'mps2lat_values_masked-count',
            '%d unmasked entries for %d values; inds=%s' % (int(np.sum(~np.ma.getmaskarray(R))), vals.size, inds.tolist()), **tags)


def check_couplings(lat, rng, tags, counters, all_dx=True):
    dim = lat.dim
    Lu = len(lat.unit_cell)
    N = lat.N_sites
    ranges = [range(-L - 1, L + 2) for L in lat.Ls]
    dxs = list(itertools.product(*ranges))
    if lat.bc_shift is not None and lat.bc[0]:
        tags = dict(tags, cfg='bc_shift+open_x')
    if not all_dx and len(dxs) > 12:
        dxs = [dxs[i] for i in rng.permutation(len(dxs))[:12]]
    for u1 in range(Lu):
        for u2 in range(Lu):
            for dx in dxs:
                if u1 == u2 and not any(dx):
                    continue
                dxa = np.array(dx)
                mps_i, mps_j, lat_indices, shape = lat.possible_couplings(u1, u2, dxa)
                got = sorted((int(a), int(b)) for a, b in zip(mps_i, mps_j))
                ref = ref_couplings(lat, u1, u2, dxa)
                require(got == ref, 'possible_couplings-vs-bruteforce', 'u1=%d u2=%d dx=%s: got %s expected %s' % (u1, u2, dx, got[:8], ref[:8]), **tags)
                if lat.bc_MPS != 'finite':
                    for a, b in got:
                        require(0 <= min(a, b) < N, 'coupling-not-in-one-unit-cell', 'u1=%d u2=%d dx=%s (i,j)=(%d,%d)' % (u1, u2, dx, a, b), **tags)
                if len(got):
                    li = np.asarray(lat_indices)
                    require(li.shape == (len(got), dim), 'lat_indices-shape', '', **tags)
                    require(np.all(li >= 0) and np.all(li < np.array(shape)), 'lat_indices-out-of-coupling_shape', '', **tags)
                    rowsl = [tuple(int(v) for v in r) for r in li]
                    require(len(set(rowsl)) == len(rowsl), 'lat_indices-not-injective', 'u1=%d u2=%d dx=%s' % (u1, u2, dx), **tags)
                    if not tags.get('irregular'):
                        require(len(rowsl) == int(np.prod(shape)), 'lat_indices-not-onto-coupling_shape', '%d rows for shape %s' % (len(rowsl), shape), **tags)
                    # strength array: every entry used exactly once
                    strength = np.arange(1, int(np.prod(shape)) + 1, dtype=float).reshape(shape)
                    i2, j2, sv = lat.possible_couplings(u1, u2, dxa, strength)
                    require(sorted(np.asarray(sv).tolist()) == sorted(strength[tuple(li.T)].tolist()), 'strength-values', '', **tags)
                    require(sorted(zip(map(int, i2), map(int, j2))) == got, 'strength-pairs', '', **tags)
                # reversed coupling describes the same bonds
                r_i, r_j, _, _ = lat.possible_couplings(u2, u1, -dxa)
                rev = sorted((int(b), int(a)) for a, b in zip(r_i, r_j))
                if lat.bc_MPS == 'finite':
                    require(rev == got, 'reversed-coupling-differs', 'u1=%d u2=%d dx=%s' % (u1, u2, dx), **tags)
                else:
                    norm = sorted((a - ((min(a, b) // N) * N), b - ((min(a, b) // N) * N)) for a, b in rev)
                    require(norm == got, 'reversed-coupling-differs', 'u1=%d u2=%d dx=%s' % (u1, u2, dx), **tags)
                counters['couplings'] += 1
                if len(ref) < lat.N_cells:
                    counters['cut_by_boundary'] += 1
                if any(abs(d) > 0 for d in dx) and len(ref) > 0:
                    counters['wrapping_or_long'] += 1
                # two-site coupling == multi coupling with two operators
                mijkl, li2, shape2 = lat.possible_multi_couplings([('A', [0] * dim, u1), ('B', list(dx), u2)])
                got2 = sorted((int(a), int(b)) for a, b in np.asarray(mijkl).reshape(-1, 2))
                require(got2 == ref, 'possible_multi_couplings(2 ops)-vs-bruteforce', 'u1=%d u2=%d dx=%s: got %s expected %s' % (u1, u2, dx, got2[:8], ref[:8]), **tags)
    # multi couplings with 3-4 operators
    for _ in range(6):
        nops = int(rng.integers(3, 5))
        ops = [('Op%d' % k, [int(rng.integers(-min(L, 2), min(L, 2) + 1)) for L in lat.Ls], int(rng.integers(0, Lu))) for k in range(nops)]
        if len(set((tuple(o[1]), o[2]) for o in ops)) < nops:
            continue
        res = lat.possible_multi_couplings(ops)
        mijkl = np.asarray(res[0]).reshape(-1, nops)
        got = sorted(tuple(int(v) for v in r) for r in mijkl)
        ref = ref_multi(lat, ops)
        require(got == ref, 'possible_multi_couplings-vs-bruteforce', 'ops=%s: got %s expected %s' % (ops, got[:4], ref[:4]), **tags)
        counters['multi'] += 1


def ref_multi(lat, ops):
    lat2mps = {tuple(int(v) for v in row): i for i, row in enumerate(lat.order)}
    N = lat.N_sites
    inf = lat.bc_MPS != 'finite'
    dxs = np.array([o[1] for o in ops])
    out = []
    # the box of the coupling is moved over all positions: base cell b, operator k sits at b + dx_k - min_dx
    mins = dxs.min(axis=0)
    for b in itertools.product(*[range(L) for L in lat.Ls]):
        idx = []
        ok = True
        # in open directions the whole box has to fit without crossing the boundary
        for (name, dx, u) in ops:
            rel = np.array(dx) - mins
            r = ref_target(lat, b, rel)
            if r is None:
                ok = False
                break
            t, cs = r
            key = tuple(int(v) for v in t) + (u,)
            if key not in lat2mps:
                ok = False
                break
            idx.append(lat2mps[key] + (cs * N if inf else 0))
        if not ok:
            continue
        if inf:
            m = min(idx)
            sh = (m % N) - m
            idx = [i + sh for i in idx]
        out.append(tuple(idx))
    # for periodic directions with box larger... each base position exactly once
    return sorted(out)


def check_pairs(lat, tags):
    if tags.get('irregular') or tags.get('helical'):
        return
    keys = [k for k in ['nearest_neighbors', 'next_nearest_neighbors', 'next_next_nearest_neighbors', 'fourth_nearest_neighbors', 'fifth_nearest_neighbors']
            if k in lat.pairs]
    prev = 0.
    Lu = len(lat.unit_cell)
    # all distances from brute force
    R = 4
    dist = {}
    for u1 in range(Lu):
        for u2 in range(Lu):
            for dx in itertools.product(range(-R, R + 1), repeat=lat.dim):
                if u1 == u2 and not any(dx):
                    continue
                d = float(np.linalg.norm(lat.unit_cell_positions[u2] - lat.unit_cell_positions[u1] + np.array(dx) @ lat.basis))
                dist[(u1, u2, dx)] = d
    shells = sorted(set(round(d, 9) for d in dist.values()))
    for n, key in enumerate(keys):
        ds = []
        for u1, u2, dx in lat.pairs[key]:
            d = lat.distance(u1, u2, np.asarray(dx))
            p1 = lat.position(np.array([0] * lat.dim + [u1]))
            p2 = lat.position(np.array(list(dx) + [u2]))
            require(abs(d - np.linalg.norm(p2 - p1)) < 1e-12, 'distance-vs-position', '', key=key, **tags)
            ds.append(float(d))
        require(max(ds) - min(ds) < 1e-9, 'pairs-unequal-distance', '%s: distances %s' % (key, sorted(set(round(x, 6) for x in ds))), key=key, **tags)
        require(ds[0] > prev + 1e-9, 'pairs-not-increasing', '%s at %r after %r' % (key, ds[0], prev), key=key, **tags)
        require(abs(round(ds[0], 9) - shells[n]) < 1e-8, 'pairs-wrong-shell', '%s has distance %r, the %d-th shell of the positions is %r' % (key, ds[0], n, shells[n]), key=key, **tags)
        prev = ds[0]
        # completeness: number of neighbours at this distance for every u
        for u in range(Lu):
            nref = sum(1 for (a, b, dx), d in dist.items() if a == u and abs(d - ds[0]) < 1e-8)
            require(lat.count_neighbors(u, key) == nref, 'pairs-incomplete', '%s, u=%d: %d pairs, %d sites at that distance' % (key, u, lat.count_neighbors(u, key), nref),
                    key=key, **tags)
        # no pair listed twice (in either direction)
        seen = set()
        for u1, u2, dx in lat.pairs[key]:
            a = (u1, u2, tuple(int(v) for v in dx))
            b = (u2, u1, tuple(-int(v) for v in dx))
            require(a not in seen and b not in seen, 'pairs-duplicate', '%s: %s' % (key, a), key=key, **tags)
            seen.add(a)


def run_lattice(spec):
    from tenpy.models import lattice
    rng = np.random.default_rng(spec['seed'])
    counters = {'couplings': 0, 'cut_by_boundary': 0, 'wrapping_or_long': 0, 'multi': 0}
    tags = dict(cls=spec['cls'], bc_MPS=spec['bc_MPS'])
    with warnings.catch_warnings():
        warnings.simplefilter('ignore')
        lat = build_lattice(spec)
        variant = spec.get('variant', 'regular')
        if variant == 'irregular':
            tags['irregular'] = True
            N = lat.N_sites
            nrem = int(rng.integers(1, max(2, N // 3)))
            rem = [lat.order[i] for i in rng.permutation(N)[:nrem]]
            lat = lattice.IrregularLattice(lat, remove=rem)
        elif variant == 'helical':
            tags['helical'] = True
            divs = [d for d in range(1, lat.N_cells + 1) if lat.N_cells % d == 0]
            lat = lattice.HelicalLattice(lat, divs[int(rng.integers(0, len(divs)))])
        elif variant == 'multispecies':
            if not isinstance(lat, lattice.SimpleLattice):
                raise Skip()
            from tenpy.networks.site import SpinHalfSite
            s1, s2 = SpinHalfSite(None), SpinHalfSite(None)
            lat = lattice.MultiSpeciesLattice(lat, [s1, s2], ['a', 'b'])
        if variant == 'helical':
            check_helical(lat, spec, rng, tags, counters)
        else:
            check_index_maps(lat, tags)
            check_values(lat, rng, tags)
            check_couplings(lat, rng, tags, counters, all_dx=(lat.N_sites <= 18))
            check_pairs(lat, tags)
    return {'nontrivial': True, 'classes': ['cls:' + spec['cls'], 'bc_MPS:' + spec['bc_MPS'], 'variant:' + spec.get('variant', 'regular')] +
            ['couplings_cut_by_boundary'] * min(1, counters['cut_by_boundary']) + ['couplings_wrapping'] * min(1, counters['wrapping_or_long']) +
            (['bc_shift'] if any(isinstance(b, int) for b in spec['bc']) else [])}


def check_helical(hel, spec, rng, tags, counters):
    """HelicalLattice: couplings equal those of the underlying regular infinite lattice restricted to one unit cell of the helix
    (translation invariance along the helix)."""
    reg = hel.regular_lattice
    N = hel.N_sites
    Nreg = reg.N_sites
    Lu = len(reg.unit_cell)
    for u1 in range(Lu):
        for u2 in range(Lu):
            for dx in itertools.product(range(-1, 2), range(-reg.Ls[1], reg.Ls[1] + 1)):
                if u1 == u2 and not any(dx):
                    continue
                i, j, _, _ = hel.possible_couplings(u1, u2, np.array(dx))
                got = sorted((int(a), int(b)) for a, b in zip(i, j))
                for a, b in got:
                    require(0 <= min(a, b) < N, 'helical-coupling-not-in-unit-cell', '(%d,%d) N=%d' % (a, b, N), **tags)
                # reference: couplings of the regular lattice, translated along the helix to start in [0, N)
                ri, rj, _, _ = reg.possible_couplings(u1, u2, np.array(dx))
                refset = set()
                for a, b in zip(ri, rj):
                    a, b = int(a), int(b)
                    for t in range(-3 * max(1, Nreg // max(1, N)) - 3, 3 * max(1, Nreg // max(1, N)) + 4):
                        aa, bb = a + t * Lu, b + t * Lu  # translation by one ring... helical symmetry: shift by one site group
                        if 0 <= min(aa, bb) < N:
                            refset.add((aa, bb))
                ref = sorted(refset)
                require(got == ref, 'helical-couplings', 'u1=%d u2=%d dx=%s: got %s expected %s' % (u1, u2, dx, got, ref), **tags)
                counters['couplings'] += 1


SUBCHECKS = [Sub('lattices', None, run_lattice, quick=1, thorough=1, enumerate_fn=enum_lattices)]
