"""C06 - Leg fusion is a lossless, consistently ordered bijection."""
import itertools
import warnings

import numpy as np
from hypothesis import strategies as st

from vf.core import Sub, Violation, require, Skip
from vf import gen, dense as D, inv

LEVEL = 'exploration'
RULE = ('pipes_enum: exhaustive enumeration of LegPipes over charge structures mod in {(), U(1), Z2, Z3}, incoming legs with <= 2 '
        'blocks (thorough: <= 3) of size 1-2 and U(1) charges in {-1,0,1}, both qconj, 1-2 incoming legs (+ a VERIF_SEED-stratified '
        'sample of 3-leg pipes; thorough: all 3-leg pipes of <= 2-block legs) x outgoing qconj x sort x bunch. Oracle: index map is a '
        'bijection equal to an independent fusion-order reference derived from the documentation, fusion rule per index, q_map '
        'ordering, combine_legs places every entry at map_incoming_flat, split(combine(a)) == a exactly incl. legs/labels, conj '
        'pipes contractible. pipes_gen: generated 1-4 leg / nested / multi-charge pipes and conj-split histories. leg_methods: '
        'generated legs through sort/bunch/project/extend/flip_charges_qconj/conj/qdict/add/drop/change_charge/get_qindex/... with '
        'per-index charge preservation. Non-trivial: two different incoming tuples fuse to the same charge, or a single-block leg, '
        'or outgoing qconj=-1, or nesting; leg methods: leg with >= 2 blocks. Distinct = distinct canonical JSON spec.')
ASSUMPTIONS = ['fusion order reference (vf/dense.py: ref_pipe) derived from the LegPipe class documentation']
EXHAUSTIVE = {'quick': False, 'thorough': False}

# ------------------------------------------------------------------------------------------------
# enumeration


def enum_legs(mod, max_blocks):
    vals = []
    for m in mod:
        vals.append([-1, 0, 1] if m == 1 else list(range(m)))
    charges = list(itertools.product(*vals)) if mod else [()]
    legs = []
    for nb in range(1, max_blocks + 1):
        for qs in itertools.product(charges, repeat=nb):
            for sizes in itertools.product([1, 2], repeat=nb):
                for c in (1, -1):
                    legs.append({'q': [list(q) for q in qs], 's': list(sizes), 'c': c, 'ctor': 0})
    return legs


def enum_pipes(tier, shard, nshards, seed):
    rng = np.random.default_rng(seed)
    k = 0
    for mod in [[], [1], [2], [3]]:
        mb = 3 if tier == 'thorough' else 2
        legs = enum_legs(mod, mb)
        legs2 = enum_legs(mod, 2)
        if not mod:
            # without charges the content of `q` is irrelevant; still several blocks are legal
            pass
        flags = list(itertools.product([1, -1], [True, False], [True, False]))
        for n in (1, 2):
            for combo in itertools.product(legs, repeat=n):
                for (qc, so, bu) in flags:
                    k += 1
                    if k % nshards == shard:
                        # `deep` (combine / split of tensors on the pipe) for every pipe of one leg and a quarter of the pairs
                        yield {'mod': mod, 'legs': list(combo), 'qconj': qc, 'sort': so, 'bunch': bu,
                               'deep': bool(n == 1 or (k // nshards) % 4 == 0)}
        # three incoming legs: complete for thorough if that are < 10^6 pipes (no charges, Z2), else a sample of 4 * 10^5
        if tier == 'thorough' and len(legs2) ** 3 * len(flags) < 10 ** 6:
            for combo in itertools.product(legs2, repeat=3):
                for (qc, so, bu) in flags:
                    k += 1
                    if k % nshards == shard:
                        yield {'mod': mod, 'legs': list(combo), 'qconj': qc, 'sort': so, 'bunch': bu}
        else:
            nsamp = 3000 if tier == 'quick' else 400000
            idx = rng.integers(0, len(legs2), size=(nsamp, 3))
            fl = rng.integers(0, len(flags), size=nsamp)
            for row, f in zip(idx, fl):
                k += 1
                if k % nshards == shard:
                    qc, so, bu = flags[f]
                    yield {'mod': mod, 'legs': [legs2[i] for i in row], 'qconj': qc, 'sort': so, 'bunch': bu}


# ------------------------------------------------------------------------------------------------
# oracle for one pipe


def check_pipe(spec, deep=True):
    from tenpy.linalg import np_conserved as npc
    from tenpy.linalg.charges import ChargeInfo, LegPipe, LegCharge
    mod = spec['mod']
    chinfo = ChargeInfo(mod)
    legs = [gen.build_leg(chinfo, l) for l in spec['legs']]
    leg_fp = [(l.slices.copy(), l.charges.copy(), l.qconj) for l in legs]
    pipe = LegPipe(legs, qconj=spec['qconj'], sort=spec['sort'], bunch=spec['bunch'])
    tags = dict(sort=spec['sort'], bunch=spec['bunch'])
    inv.check_leg(pipe, 'LegPipe', 'pipe')
    ref = D.ref_pipe(legs, spec['qconj'], mod, spec['sort'], spec['bunch'])
    n = pipe.ind_len
    subshape = [l.ind_len for l in legs]
    require(n == int(np.prod(subshape)), 'pipe-ind_len', '', **tags)
    # (1) bijection, equal to the documented fusion order
    idx = np.array(np.unravel_index(np.arange(n), subshape)).T.reshape(n, len(legs))
    out = np.array([pipe.map_incoming_flat(list(i)) for i in idx], dtype=np.int64)
    require(sorted(out.tolist()) == list(range(n)), 'map_incoming_flat-not-bijection', str(out.tolist()), **tags)
    inv_ref = np.argsort(ref['perm'])  # flat incoming index -> outgoing position
    require(np.array_equal(out, inv_ref), 'map_incoming_flat-vs-documented-order', 'got %s expected %s' % (out.tolist(), inv_ref.tolist()), **tags)
    # (2) fusion rule for every index
    qsigned = D.make_valid(mod, D.signed_qflat(pipe))
    exp = np.zeros((n, len(mod)), dtype=np.int64)
    for ax, l in enumerate(legs):
        exp += D.signed_qflat(l)[idx[:, ax]]
    exp = D.make_valid(mod, exp)
    require(np.array_equal(qsigned[out], exp), 'fusion-rule', '', **tags)
    require(pipe.qconj == spec['qconj'], 'pipe-qconj', '', **tags)
    # (3) block structure equals the reference
    require(np.array_equal(pipe.slices, ref['slices']), 'pipe-slices', '%s vs %s' % (pipe.slices, ref['slices']), **tags)
    require([tuple(int(x) for x in r) for r in pipe.charges] == ref['block_charges'], 'pipe-charges', '', **tags)
    # (4) q_map ordering: by I_s, then by incoming tuple; q_map_slices address the rows of every I_s
    qm = pipe.q_map
    keys = [(int(r[2]),) + tuple(int(x) for x in r[3:]) for r in qm]
    if spec['sort'] or len(mod) == 0 or True:
        # rows belonging to one I_s are contiguous and addressed by q_map_slices
        for Is in range(pipe.block_number):
            rows = [k for k in range(len(qm)) if qm[k, 2] == Is]
            require(rows == list(range(int(pipe.q_map_slices[Is]), int(pipe.q_map_slices[Is + 1]))), 'q_map_slices', 'I_s=%d' % Is, **tags)
            tuples = [keys[k][1:] for k in rows]
            if spec['sort']:
                require(tuples == sorted(tuples), 'q_map-row-order', 'I_s=%d: %s' % (Is, tuples), **tags)
    # _map_incoming_qind finds the row of every tuple
    allq = np.array(list(itertools.product(*[range(l.block_number) for l in legs])), dtype=np.intp).reshape(-1, len(legs))
    rows = pipe._map_incoming_qind(allq)
    require(np.array_equal(qm[rows, 3:], allq), '_map_incoming_qind', '', **tags)
    # (5) flags
    if spec['sort'] and spec['bunch']:
        require(pipe.is_blocked(), 'sort-and-bunch-not-blocked', '', **tags)
    # incoming legs untouched
    for l, (s, c, q) in zip(legs, leg_fp):
        require(np.array_equal(l.slices, s) and np.array_equal(l.charges, c) and l.qconj == q, 'incoming-leg-mutated', '', **tags)
    # (6) conj: contractible, incoming legs conjugated
    pc = pipe.conj()
    pipe.test_contractible(pc)
    require(pc.qconj == -pipe.qconj and all(a.qconj == -b.qconj for a, b in zip(pc.legs, pipe.legs)), 'pipe-conj-qconj', '', **tags)
    inv.check_leg(pc, 'LegPipe.conj', 'pipe.conj()')
    oc = pipe.outer_conj()
    require(np.array_equal(D.make_valid(mod, D.signed_qflat(oc)), qsigned), 'outer_conj-changes-signed-charges', '', **tags)
    require(oc.qconj == -pipe.qconj, 'outer_conj-qconj', 'pipe.qconj=%d -> outer_conj().qconj=%d' % (pipe.qconj, oc.qconj), **tags)
    lc = pipe.to_LegCharge()
    require(type(lc) is LegCharge and np.array_equal(lc.slices, pipe.slices) and np.array_equal(lc.charges, pipe.charges) and lc.qconj == pipe.qconj,
            'to_LegCharge', '', **tags)
    nontrivial = (len(set(map(tuple, exp.tolist()))) < len(allq)) or any(l.block_number == 1 for l in legs) or spec['qconj'] == -1
    if not deep:
        return nontrivial
    # (7) tensors: entries encode their own multi-index
    extra = LegCharge.from_qind(chinfo, [0, 1, 2] if True else [0, 2], [[0] * len(mod), [0] * len(mod)], 1)
    shape = subshape + [2]
    tot = n * 2
    dense_full = (np.arange(tot, dtype=np.float64) + 1).reshape(shape)
    # several total charges so that every entry is covered: qtotal ranges over the fused charges
    seen_q = sorted(set(map(tuple, exp.tolist())))
    labels = ['l%d' % k for k in range(len(legs))] + ['x']
    for qt in seen_q[:3]:
        mask = np.all(exp == np.array(qt, dtype=np.int64)[None, :], axis=1) if len(mod) else np.ones(n, dtype=bool)
        d = dense_full.copy().reshape(n, 2)
        d[~mask] = 0
        d = d.reshape(shape)
        a = npc.Array.from_ndarray(d, legs + [extra], qtotal=list(qt), labels=labels)
        c = a.combine_legs(list(range(len(legs))), pipes=pipe)
        inv.check_array(c, 'combine_legs')
        cd = c.to_ndarray()
        require(cd.shape == (n, 2), 'combine-shape', '', **tags)
        require(np.array_equal(cd[out], d.reshape(n, 2)), 'combine-entries-not-at-map_incoming_flat', '', **tags)
        require(c.get_leg_labels() == ['(' + '.'.join(labels[:-1]) + ')', 'x'], 'combine-labels', str(c.get_leg_labels()), **tags)
        s = c.split_legs(0)
        inv.check_array(s, 'split_legs')
        require(np.array_equal(s.to_ndarray(), d), 'split-combine-not-identity', '', **tags)
        require(s.get_leg_labels() == labels, 'split-labels', str(s.get_leg_labels()), **tags)
        for l1, l0 in zip(s.legs, a.legs):
            require(l1 is l0 or (np.array_equal(l1.slices, l0.slices) and np.array_equal(l1.charges, l0.charges) and l1.qconj == l0.qconj),
                    'split-legs-differ', '', **tags)
        require(np.array_equal(s.qtotal, a.qtotal), 'split-qtotal', '', **tags)
        # default pipe construction agrees with an explicit pipe (sort=bunch=True)
        c2 = a.combine_legs(labels[:-1], qconj=spec['qconj'])
        ref2 = D.ref_pipe(legs, spec['qconj'], mod, True, True)
        require(np.array_equal(c2.to_ndarray(), d.reshape(n, 2)[ref2['perm']]), 'combine-default-pipe', '', **tags)
        # conjugated: combine(conj(a)) with the conjugated pipe handled automatically ("pipes are conjugated if necessary")
        ac = a.conj()
        cc = ac.combine_legs(list(range(len(legs))), pipes=pipe)
        require(np.array_equal(cc.to_ndarray()[out], d.reshape(n, 2)), 'combine-conj-pipe', '', **tags)
        sc = cc.split_legs()
        require(np.array_equal(sc.to_ndarray(), d), 'split-conj-pipe', '', **tags)
        for l1, l0 in zip(sc.legs, ac.legs):
            require(l1.qconj == l0.qconj and np.array_equal(D.make_valid(mod, D.signed_qflat(l1)), D.make_valid(mod, D.signed_qflat(l0))),
                    'split-conj-legs', 'leg of split(conj) differs', **tags)
    return nontrivial


def run_enum(spec):
    with warnings.catch_warnings():
        warnings.simplefilter('ignore')
        nt = check_pipe(spec, deep=spec.get('deep', len(spec['legs']) == 3))
    return {'nontrivial': bool(nt)}


# ------------------------------------------------------------------------------------------------
# generated: more legs, nesting, several charges, conj/split histories


@st.composite
def nested_specs(draw, tier):
    ch = draw(gen.chinfo_specs(3))
    mod = ch['mod']
    nlegs = draw(st.integers(2, 5))
    legs = [draw(gen.leg_specs(mod, max_blocks=3, max_size=2)) for _ in range(nlegs)]
    # a random nesting: list of combine steps, each combines a contiguous group of the current axes
    steps = []
    cur = nlegs
    for _ in range(draw(st.integers(1, 3))):
        if cur < 1:
            break
        size = draw(st.integers(1, min(3, cur)))
        start = draw(st.integers(0, cur - size))
        steps.append({'start': start, 'size': size, 'qconj': draw(st.sampled_from([None, 1, -1])), 'conj_after': draw(st.booleans()),
                      'transpose_after': draw(st.integers(0, 5))})
        cur = cur - size + 1
    fill = draw(gen.fill_specs())
    return {'ch': ch, 'legs': legs, 'steps': steps, 'fill': fill, 'qt': draw(st.integers(0, 40)), 'split_order': draw(st.integers(0, 3))}


def run_nested(spec):
    from tenpy.linalg import np_conserved as npc
    from tenpy.linalg.charges import LegPipe
    chinfo = gen.build_chinfo(spec['ch'])
    mod = [int(m) for m in chinfo.mod]
    legs = [gen.build_leg(chinfo, l) for l in spec['legs']]
    if int(np.prod([l.ind_len for l in legs])) > 3000:
        raise Skip()
    tspec = {'fill': spec['fill'], 'qt': spec['qt'], 'labels': ['a%d' % k for k in range(len(legs))]}
    a, dense, info = gen.build_array(legs, tspec, chinfo)
    cur = a
    conj_count = 0
    for st_ in spec['steps']:
        axes = list(range(st_['start'], st_['start'] + st_['size']))
        kw = {} if st_['qconj'] is None else {'qconj': st_['qconj']}
        cur = cur.combine_legs(axes, **kw)
        inv.check_array(cur, 'combine_legs')
        if st_['conj_after']:
            cur = cur.conj()
            conj_count += 1
            inv.check_array(cur, 'conj')
    # now split everything again (all levels)
    depth = 0
    with warnings.catch_warnings():
        warnings.simplefilter('ignore')
        while any(isinstance(l, LegPipe) for l in cur.legs):
            if spec['split_order'] % 2 == 0:
                cur = cur.split_legs()
            else:
                first = [k for k, l in enumerate(cur.legs) if isinstance(l, LegPipe)][-1 if spec['split_order'] == 3 else 0]
                cur = cur.split_legs(first)
            inv.check_array(cur, 'split_legs')
            depth += 1
            require(depth < 10, 'split-does-not-terminate', '')
    exp = np.conj(dense) if conj_count % 2 else dense
    ref = a.conj() if conj_count % 2 else a
    require(cur.rank == a.rank, 'nested-rank', '%d vs %d' % (cur.rank, a.rank))
    got = cur.to_ndarray()
    require(np.array_equal(got, exp) if spec['fill']['kind'] == 'int' else np.allclose(got, exp, atol=1e-13), 'nested-split-combine-not-identity', '')
    require(cur.get_leg_labels() == ref.get_leg_labels(), 'nested-labels', '%s vs %s' % (cur.get_leg_labels(), ref.get_leg_labels()))
    require(np.array_equal(cur.qtotal, ref.qtotal), 'nested-qtotal', '')
    for k, (l1, l0) in enumerate(zip(cur.legs, ref.legs)):
        require(l1.qconj == l0.qconj, 'nested-leg-qconj', 'leg %d: qconj %d vs %d after %d conj' % (k, l1.qconj, l0.qconj, conj_count))
        l1.test_equal(l0)
    # contraction with the original must work and give |a|^2
    nrm = npc.inner(a, cur if conj_count % 2 == 0 else cur.conj(), axes='range', do_conj=True)
    require(abs(nrm - np.sum(np.abs(dense) ** 2)) <= 1e-10 * max(1., float(np.sum(np.abs(dense) ** 2))), 'nested-inner', '')
    nested = any(s['size'] >= 1 for s in spec['steps'][1:]) and len(spec['steps']) >= 2
    return {'nontrivial': bool(info['multi_block_leg'] and (nested or conj_count > 0)), 'classes': ['conj%d' % (conj_count % 2), 'steps%d' % len(spec['steps'])]}


# ------------------------------------------------------------------------------------------------
# leg methods


@st.composite
def legmethod_specs(draw, tier):
    ch = draw(gen.chinfo_specs(3))
    leg = draw(gen.leg_specs(ch['mod'], max_blocks=5, max_size=3))
    other = draw(gen.leg_specs(ch['mod'], max_blocks=3, max_size=2))
    return {'ch': ch, 'leg': leg, 'other': other, 'seed': draw(st.integers(0, 10 ** 6)),
            'method': draw(st.sampled_from(['sort', 'bunch', 'project', 'extend', 'flip', 'conj', 'qdict', 'add_charge', 'drop_charge', 'change_charge',
                                            'get_qindex', 'perm', 'charge_sectors', 'get_qindex_of_charges', 'copy', 'from_qflat']))}


def run_legmethod(spec):
    from tenpy.linalg.charges import ChargeInfo, LegCharge
    chinfo = gen.build_chinfo(spec['ch'])
    mod = [int(m) for m in chinfo.mod]
    leg = gen.build_leg(chinfo, spec['leg'])
    other = gen.build_leg(chinfo, spec['other'])
    rng = np.random.default_rng(spec['seed'])
    m = spec['method']
    tags = dict(method=m)
    before = (leg.slices.copy(), leg.charges.copy(), leg.qconj, leg.ind_len, leg.block_number)
    sq = D.make_valid(mod, D.signed_qflat(leg))
    n = leg.ind_len

    def unchanged():
        require(np.array_equal(leg.slices, before[0]) and np.array_equal(leg.charges, before[1]) and leg.qconj == before[2]
                and leg.ind_len == before[3] and leg.block_number == before[4], 'leg-mutated', m, **tags)
        inv.check_leg(leg, m, 'self')

    def sqf(l):
        return D.make_valid([int(x) for x in l.chinfo.mod], D.signed_qflat(l))

    if m == 'sort':
        bunch = bool(spec['seed'] % 2)
        perm_qind, s = leg.sort(bunch=bunch)
        inv.check_leg(s, m, 'sorted')
        require(s.is_sorted(), 'sort-not-sorted', '', **tags)
        if bunch:
            require(s.is_blocked(), 'sort-bunch-not-blocked', '', **tags)
        pf = leg.perm_flat_from_perm_qind(perm_qind)
        require(sorted(pf.tolist()) == list(range(n)), 'perm_flat-not-permutation', '', **tags)
        require(np.array_equal(sqf(s), sq[pf]), 'sort-charges-not-preserved', '', **tags)
        require(s.qconj == leg.qconj and s.ind_len == n, 'sort-qconj/len', '', **tags)
        # stable: equal charges keep their relative order
        rows = [tuple(r) for r in leg.charges]
        exp = D.lexsort_rows_stable(rows) if len(mod) else list(range(len(rows)))
        if not (leg.sorted and ((not bunch) or leg.bunched)):
            require([int(x) for x in perm_qind] == exp, 'sort-perm_qind', '%s vs %s' % (perm_qind, exp), **tags)
        # round trip of the permutation conversion
        require(np.array_equal(leg.perm_qind_from_perm_flat(pf), perm_qind), 'perm_qind_from_perm_flat', '', **tags)
    elif m == 'bunch':
        idx, b = leg.bunch()
        inv.check_leg(b, m, 'bunched')
        require(b.is_bunched(), 'bunch-not-bunched', '', **tags)
        require(np.array_equal(sqf(b), sq), 'bunch-charges-not-preserved', '', **tags)
        require(int(idx[-1]) == leg.block_number and len(idx) == b.block_number + 1, 'bunch-idx', str(idx), **tags)
        require(np.array_equal(b.slices, leg.slices[idx]), 'bunch-slices', '', **tags)
    elif m == 'project':
        mask = rng.integers(0, 3, size=n) > 0
        if not mask.any():
            mask[0] = True
        map_qind, block_masks, p = leg.project(mask)
        inv.check_leg(p, m, 'projected')
        keep = np.nonzero(mask)[0]
        require(np.array_equal(sqf(p), sq[keep]), 'project-charges-not-preserved', '', **tags)
        require(p.qconj == leg.qconj, 'project-qconj', '', **tags)
        # map_qind / block_masks
        require(len(map_qind) == leg.block_number, 'project-map_qind-len', '', **tags)
        newq = 0
        for qi in range(leg.block_number):
            bm = mask[leg.slices[qi]:leg.slices[qi + 1]]
            if bm.any():
                require(map_qind[qi] == newq, 'project-map_qind', '', **tags)
                require(np.array_equal(np.asarray(block_masks[newq]), bm), 'project-block_masks', '', **tags)
                newq += 1
            else:
                require(map_qind[qi] == -1, 'project-map_qind', '', **tags)
        require(newq == p.block_number, 'project-block_number', '', **tags)
    elif m == 'extend':
        if spec['seed'] % 3 == 0:
            k = 1 + spec['seed'] % 4
            e = leg.extend(k)
            exp = np.concatenate([sq, np.zeros((k, len(mod)), dtype=np.int64)], axis=0)
        else:
            e = leg.extend(other)
            exp = np.concatenate([sq, sqf(other)], axis=0)
        inv.check_leg(e, m, 'extended')
        require(np.array_equal(sqf(e), exp), 'extend-charges-not-preserved', 'qconj self %d extra %d' % (leg.qconj, other.qconj), **tags)
        require(e.qconj == leg.qconj, 'extend-qconj', '', **tags)
    elif m == 'flip':
        f = leg.flip_charges_qconj()
        inv.check_leg(f, m, 'flipped')
        require(f.qconj == -leg.qconj, 'flip-qconj', '', **tags)
        require(np.array_equal(sqf(f), sq), 'flip-charges-not-preserved', '', **tags)
        leg.test_equal(f)
        leg.test_contractible(f.conj())
    elif m == 'conj':
        c = leg.conj()
        inv.check_leg(c, m, 'conj')
        require(c.qconj == -leg.qconj and np.array_equal(sqf(c), D.make_valid(mod, -sq)), 'conj', '', **tags)
        leg.test_contractible(c)
        c.test_contractible(leg)
        ok = False
        try:
            leg.test_equal(c)
            ok = not np.any(sq != D.make_valid(mod, -sq))
        except ValueError:
            ok = bool(np.any(sq != D.make_valid(mod, -sq)))
        require(ok, 'test_equal-conj', 'test_equal(leg, leg.conj()) inconsistent with the charges', **tags)
    elif m == 'qdict':
        _, bl = leg.sort(bunch=True)
        qd = bl.to_qdict()
        r = LegCharge.from_qdict(chinfo, qd, bl.qconj)
        inv.check_leg(r, m, 'from_qdict')
        require(np.array_equal(sqf(r), sqf(bl)), 'qdict-roundtrip', '', **tags)
        # a qdict given in arbitrary key order / with unsorted charges
        items = list(qd.items())
        order = rng.permutation(len(items))
        qd2 = {items[i][0]: items[i][1] for i in order}
        r2 = LegCharge.from_qdict(chinfo, qd2, bl.qconj)
        inv.check_leg(r2, m, 'from_qdict(shuffled)')
        require(np.array_equal(sqf(r2), sqf(bl)), 'qdict-roundtrip-shuffled', '', **tags)
        # unsorted leg (blocked but not sorted): from a reversed block order
        if bl.block_number >= 2:
            sizes = bl.get_block_sizes()[::-1]
            sl = np.concatenate([[0], np.cumsum(sizes)])
            qd3 = {tuple(int(x) for x in c): slice(int(a), int(b)) for c, a, b in zip(bl.charges[::-1], sl[:-1], sl[1:])}
            r3 = LegCharge.from_qdict(chinfo, qd3, bl.qconj)
            inv.check_leg(r3, m, 'from_qdict(unsorted charges)')
            p, s3 = r3.sort()
            require(s3.is_sorted(), 'from_qdict-then-sort-not-sorted', 'charges %s' % s3.charges.tolist(), **tags)
        if not leg.is_blocked():
            try:
                leg.to_qdict()
                raise Violation('to_qdict-nonblocked-no-error', '', **tags)
            except ValueError:
                pass
    elif m == 'add_charge':
        ch2 = ChargeInfo([2], ['extra'])
        # a second leg of the same length with its own block structure
        sizes = []
        rem = n
        while rem > 0:
            s = int(rng.integers(1, rem + 1))
            sizes.append(s)
            rem -= s
        sl = np.concatenate([[0], np.cumsum(sizes)])
        l2 = LegCharge.from_qind(ch2, sl, rng.integers(0, 2, size=(len(sizes), 1)), leg.qconj)
        c = LegCharge.from_add_charge([leg, l2])
        inv.check_leg(c, m, 'added')
        full = np.concatenate([D.signed_qflat(leg), D.signed_qflat(l2)], axis=1)
        require(np.array_equal(sqf(c), D.make_valid(mod + [2], full)), 'add_charge-charges', '', **tags)
        require(list(c.chinfo.mod) == mod + [2], 'add_charge-chinfo', '', **tags)
    elif m == 'drop_charge':
        if not mod:
            raise Skip()
        k = spec['seed'] % len(mod)
        names = ['n%d' % i for i in range(len(mod))]
        chn = ChargeInfo(mod, names)
        legn = LegCharge.from_qind(chn, leg.slices, leg.charges, leg.qconj)
        by_name = bool((spec['seed'] // 7) % 2)
        d = LegCharge.from_drop_charge(legn, names[k] if by_name else k)
        inv.check_leg(d, m, 'dropped')
        keep = [i for i in range(len(mod)) if i != k]
        require(np.array_equal(sqf(d), sq[:, keep]), 'drop_charge-charges', 'dropped %r by_name=%r' % (k, by_name), by_name=by_name, **tags)
        require(list(d.chinfo.names) == [names[i] for i in keep], 'drop_charge-names', '%s' % d.chinfo.names, by_name=by_name, **tags)
        dall = LegCharge.from_drop_charge(legn, None)
        require(dall.ind_len == n and dall.chinfo.qnumber == 0 and dall.qconj == leg.qconj, 'drop_charge-all', '', **tags)
    elif m == 'change_charge':
        if not mod:
            raise Skip()
        k = spec['seed'] % len(mod)
        cur = mod[k]
        newm = [2, 3, 1][spec['seed'] % 3] if cur == 1 else [d for d in range(2, cur + 1) if cur % d == 0][spec['seed'] % len([d for d in range(2, cur + 1) if cur % d == 0])]
        c = LegCharge.from_change_charge(leg, k, newm, 'chg')
        inv.check_leg(c, m, 'changed')
        mod2 = list(mod)
        mod2[k] = newm
        require(np.array_equal(sqf(c), D.make_valid(mod2, D.signed_qflat(leg))), 'change_charge-charges', '', **tags)
    elif m == 'get_qindex':
        for i in list(range(n)) + [-1, -n]:
            qi, w = leg.get_qindex(i)
            ii = i % n
            require(leg.slices[qi] <= ii < leg.slices[qi + 1] and w == ii - leg.slices[qi], 'get_qindex', 'i=%d -> (%d,%d)' % (i, qi, w), **tags)
            sl = leg.get_slice(qi)
            require(sl.start == leg.slices[qi] and sl.stop == leg.slices[qi + 1], 'get_slice', '', **tags)
            require(np.array_equal(D.make_valid(mod, leg.get_charge(qi)), sq[ii]), 'get_charge', '', **tags)
        for bad in (n, n + 3, -n - 1):
            try:
                r = leg.get_qindex(bad)
            except IndexError:
                continue
            raise Violation('get_qindex-out-of-range-accepted', 'get_qindex(%d) on a leg of length %d returned %r' % (bad, n, r), **tags)
    elif m == 'perm':
        # a flat permutation which does not mix blocks <-> qind permutation
        pq = rng.permutation(leg.block_number)
        pf = leg.perm_flat_from_perm_qind(pq)
        exp = np.concatenate([np.arange(leg.slices[q], leg.slices[q + 1]) for q in pq]) if leg.block_number else np.arange(0)
        require(np.array_equal(pf, exp), 'perm_flat_from_perm_qind', '', **tags)
        back = leg.perm_qind_from_perm_flat(pf)
        # unique only if the sizes identify the blocks; check that it reproduces the flat permutation
        require(np.array_equal(leg.perm_flat_from_perm_qind(back), pf), 'perm_qind_from_perm_flat', '', **tags)
        if n >= 2 and leg.block_number >= 1 and np.any(leg.get_block_sizes() >= 2):
            # mixing inside... a permutation mixing different blocks must be rejected
            if leg.block_number >= 2:
                bad = np.arange(n)
                bad[[0, n - 1]] = bad[[n - 1, 0]]
                if leg.slices[1] > 1 or leg.slices[-1] - leg.slices[-2] > 1:
                    try:
                        leg.perm_qind_from_perm_flat(bad)
                        raise Violation('perm_qind_from_perm_flat-accepts-mixing', '', **tags)
                    except ValueError:
                        pass
    elif m == 'charge_sectors':
        cs = leg.charge_sectors()
        exp = sorted(set(tuple(int(x) for x in r) for r in leg.charges), key=lambda t: tuple(reversed(t)))
        require([tuple(int(x) for x in r) for r in cs] == exp, 'charge_sectors', '%s vs %s' % (cs.tolist(), exp), **tags)
    elif m == 'get_qindex_of_charges':
        qi = int(rng.integers(0, leg.block_number))
        ch = leg.get_charge(qi)
        rows = [tuple(r) for r in leg.charges]
        if rows.count(rows[qi]) == 1:
            r = leg.get_qindex_of_charges(ch)
            require(int(r) == qi, 'get_qindex_of_charges', '%r vs %r' % (r, qi), **tags)
        else:
            try:
                leg.get_qindex_of_charges(ch)
                raise Violation('get_qindex_of_charges-nonunique-no-error', '', **tags)
            except ValueError:
                pass
    elif m == 'copy':
        c = leg.copy()
        require(c is not leg and np.array_equal(sqf(c), sq) and c.qconj == leg.qconj and c.sorted == leg.sorted and c.bunched == leg.bunched, 'copy', '', **tags)
    elif m == 'from_qflat':
        qf = leg.to_qflat()
        r = LegCharge.from_qflat(chinfo, qf, leg.qconj)
        inv.check_leg(r, m, 'from_qflat')
        require(np.array_equal(sqf(r), sq), 'from_qflat-roundtrip', '', **tags)
        b = r.bunch()[1]
        inv.check_leg(b, m, 'from_qflat.bunch')
        require(np.array_equal(sqf(b), sq), 'from_qflat-bunch', '', **tags)
    unchanged()
    return {'nontrivial': leg.block_number >= 2, 'classes': ['m:' + m] + gen.leg_classes(leg)}


SUBCHECKS = [
    Sub('pipes_enum', None, run_enum, quick=1, thorough=1, enumerate_fn=enum_pipes),
    Sub('pipes_nested', nested_specs, run_nested, quick=3000, thorough=150000),
    Sub('leg_methods', legmethod_specs, run_legmethod, quick=6000, thorough=300000),
]
