"""C08 - MPS measurements equal dense quantum mechanics."""
import itertools
import warnings

import numpy as np
from hypothesis import strategies as st

from vf.core import Sub, Violation, require, Skip
from vf import mps as M

LEVEL = 'exploration'
RULE = ('Generated chains (L=2-6, all predefined site types, heterogeneous with common charges) and random entangled states in a '
        'random charge sector (from_full); for bra != ket a second state in the same sector and norms != 1 (MPSEnvironment). Every '
        'operator name of every site (and products), npc multi-site operators and every argument of expectation_value(_multi_sites, '
        '_term, _terms_sum), correlation_function (ops lists, sites1/sites2 with i<j, i=j, i>j, opstr, str_on_first, hermitian, autoJW), '
        'term_correlation_function_right/left, term_list_correlation_function_right, overlap, get_rho_segment, '
        'entanglement_entropy_segment(2), mutinf_two_site, probability_per_charge / average_charge / charge_variance and '
        'sample_measurements are compared with <bra|O|ket> of numpy kron operators incl. Jordan-Wigner strings (MPS methods ignore '
        'psi.norm, environment methods include it, as documented). (infinite_window) infinite MPS (unit cells of 2-3 equal sites of 8 site '
        'types with and without charges, a few layers of random charge-conserving two-site unitaries on a product state, chi <= 4, '
        'any canonical form per site): expectation_value, expectation_value_multi_sites, expectation_value_term, correlation_function '
        '(bosonic and fermionic, i<j, i=j, i>j, sites beyond the unit cell and negative), entanglement_entropy, get_rho_segment and overlap '
        'against the reduced density matrix of a window of up to 8 sites built from the dominant eigenvectors of the dense unit-cell '
        'transfer matrix (mixed transfer matrix for overlap). (segment_window) a segment cut (one- or two-sided) out of a random finite '
        'chain, any canonical form: the same measurement functions equal the values of the parent state vector on those sites. Non-trivial: chi >= 2 and an operator not proportional to the '
        'identity with a non-vanishing entry. Distinct = distinct canonical JSON spec.')
ASSUMPTIONS = ['site operators as validated by C12', 'MPS <-> dense conversion as validated by C07']
TOL = 1e-9


def build_state(chain, seed, norm=1.0):
    from tenpy.networks.mps import MPS
    sites = M.build_sites(chain)
    vec, q = M.random_state(sites, seed)
    psi = MPS.from_full(sites, M.to_npc_state(sites, vec, q), form='B')
    psi.norm = norm
    return sites, psi, vec, q


def second_state(sites, q, seed):
    """random state in the SAME sector as q"""
    from tenpy.networks.mps import MPS
    for k in range(40):
        vec, q2 = M.random_state(sites, seed + 7919 * k)
        if np.array_equal(q2, q):
            return MPS.from_full(sites, M.to_npc_state(sites, vec, q2), form='B'), vec
    raise Skip()


def names_of(site, rng, fermionic=None, neutral=False):
    names = sorted(n for n in site.opnames if not n.startswith('JW'))
    if neutral:
        names = [n for n in names if not np.any(site.get_op(n).qtotal)]
    if fermionic is True:
        names = [n for n in names if site.op_needs_JW(n)]
    elif fermionic is False:
        names = [n for n in names if not site.op_needs_JW(n)]
    if not names:
        return None
    return names[int(rng.integers(0, len(names)))]


def ev(bra, O, ket):
    return np.vdot(bra.ravel(), O @ ket.ravel())


@st.composite
def ev_specs(draw, tier):
    return {'chain': draw(M.chain_specs(2, 6, max_dim=2 ** 10)), 'seed': draw(st.integers(0, 10 ** 6)), 'env': draw(st.booleans()),
            'norms': [draw(st.sampled_from([1.0, 0.5, 2.0])), draw(st.sampled_from([1.0, 3.0]))], 'which': draw(st.sampled_from(
                ['names', 'nsite', 'multi_sites', 'term', 'terms_sum', 'corr', 'corr', 'corr_opstr', 'term_corr', 'term_list_corr']))}


def run_ev(spec):
    from tenpy.networks.mps import MPS, MPSEnvironment
    from tenpy.networks.terms import TermList
    from tenpy.linalg import np_conserved as npc
    rng = np.random.default_rng(spec['seed'] + 1)
    with warnings.catch_warnings():
        warnings.simplefilter('ignore')
        sites, psi, vec, q = build_state(spec['chain'], spec['seed'], spec['norms'][0])
        L = len(sites)
        which = spec['which']
        tags = dict(fn=which, env=spec['env'])
        if spec['env']:
            phi, vec2 = second_state(sites, q, spec['seed'] + 13)
            phi.norm = spec['norms'][1]
            obj = MPSEnvironment(phi, psi)
            bra, ket = vec2 * phi.norm, vec * psi.norm  # environment methods include the norms
        else:
            obj = psi
            bra = ket = vec  # MPS methods ignore psi.norm
        nontrivial = max(psi.chi) >= 2
        classes = [which, 'env' if spec['env'] else 'mps']
        if any(c in M.FERMIONIC for c in [M.SITE_CFGS[i][0] for i in spec['chain']['cfg']]):
            classes.append('fermionic')
        if which == 'names':
            # one name per site (list of length L), bosonic operators only (documented: single fermionic operators are refused)
            ops = [names_of(s, rng, fermionic=False) for s in sites]
            sub = sorted(rng.permutation(L)[:int(rng.integers(1, L + 1))].tolist()) if rng.integers(0, 2) else None
            got = obj.expectation_value(ops, sites=sub)
            idx = sub if sub is not None else range(L)
            exp = [ev(bra, M.dense_op(sites, {i: M.op_matrix(sites[i], ops[i])}), ket) for i in idx]
            require(np.allclose(got, exp, atol=TOL), 'expectation_value', 'ops %s sites %s: %s vs %s' % (ops, sub, got, exp), **tags)
            # products of names
            i = int(rng.integers(0, L))
            a, b = names_of(sites[i], rng, False), names_of(sites[i], rng, False)
            got = obj.expectation_value(a + ' ' + b, sites=[i])
            exp = ev(bra, M.dense_op(sites, {i: M.op_matrix(sites[i], a) @ M.op_matrix(sites[i], b)}), ket)
            require(abs(got[0] - exp) < TOL, 'expectation_value-product-name', '%s %s' % (a, b), **tags)
        elif which == 'nsite':
            n = int(rng.integers(1, min(3, L) + 1))
            i = int(rng.integers(0, L - n + 1))
            ops = [M.op_matrix(sites[i + k], names_of(sites[i + k], rng, False)) for k in range(n)]
            O = None
            for k in range(n):
                o = sites[i + k].get_op(names_of(sites[i + k], np.random.default_rng(spec['seed'] + 100 + k), False)).replace_labels(['p', 'p*'], ['p%d' % k, 'p%d*' % k])
                ops[k] = np.transpose(o.to_ndarray(), [o.get_leg_index('p%d' % k), o.get_leg_index('p%d*' % k)])
                O = o if O is None else npc.outer(O, o)
            if n == 1:
                O = O.replace_labels(['p0', 'p0*'], ['p', 'p*'])
            got = obj.expectation_value(O, sites=[i])
            exp = ev(bra, M.dense_op(sites, {i + k: ops[k] for k in range(n)}), ket)
            require(abs(got[0] - exp) < TOL, 'expectation_value-nsite', 'n=%d i=%d: %s vs %s' % (n, i, got, exp), **tags)
            # custom axes labels
            if n == 2:
                O2 = O.replace_labels(['p0', 'p1', 'p0*', 'p1*'], ['a', 'b', 'c', 'd'])
                got2 = obj.expectation_value(O2, sites=[i], axes=(['a', 'b'], ['c', 'd']))
                require(abs(got2[0] - exp) < TOL, 'expectation_value-axes', '', **tags)
        elif which == 'multi_sites':
            n = int(rng.integers(1, min(4, L) + 1))
            i = int(rng.integers(0, L - n + 1))
            names = [names_of(sites[i + k], rng, False) for k in range(n)]
            got = obj.expectation_value_multi_sites(names, i)
            exp = ev(bra, M.dense_op(sites, {i + k: M.op_matrix(sites[i + k], names[k]) for k in range(n)}), ket)
            require(abs(got - exp) < TOL, 'expectation_value_multi_sites', '%s at %d: %s vs %s' % (names, i, got, exp), **tags)
        elif which in ('term', 'terms_sum'):
            def rand_term():
                n = int(rng.integers(1, 5))
                term = []
                for _ in range(n):
                    i = int(rng.integers(0, L))
                    term.append((names_of(sites[i], rng), i))
                # need an even number of fermionic operators
                nf = sum(sites[i].op_needs_JW(nm) for nm, i in term)
                if nf % 2:
                    cand = [i for i in range(L) if names_of(sites[i], rng, True) is not None]
                    i = cand[int(rng.integers(0, len(cand)))]
                    term.append((names_of(sites[i], rng, True), i))
                return term
            if which == 'term':
                term = rand_term()
                got = obj.expectation_value_term(term)
                exp = ev(bra, M.jw_term(sites, term), ket)
                require(abs(got - exp) < TOL, 'expectation_value_term', 'term %s: %s vs %s' % (term, got, exp), **tags)
                classes.append('term-fermionic' if any(sites[i].op_needs_JW(nm) for nm, i in term) else 'term-bosonic')
                classes.append('term-unordered' if [i for _, i in term] != sorted(i for _, i in term) else 'term-ordered')
            else:
                def neutral_term():
                    # A_i A^dagger_j (or a diagonal operator): total charge zero, as required for an MPO
                    i = int(rng.integers(0, L))
                    same = [k for k in range(L) if spec['chain']['cfg'][k] == spec['chain']['cfg'][i]]
                    j = same[int(rng.integers(0, len(same)))]
                    for _ in range(20):
                        a = names_of(sites[i], rng)
                        hc = sites[i].get_hc_op_name(a)
                        if hc in sites[j].opnames and (i != j or True):
                            return [(a, i), (hc, j)]
                    raise Skip()
                if spec['env']:
                    psi.norm = phi.norm = 1.0  # documented: the environment version does not include normalization factors
                    bra, ket = vec2, vec
                terms = [neutral_term() for _ in range(int(rng.integers(1, 4)))]
                strengths = [complex(rng.normal(), rng.normal()) for _ in terms]
                tl = TermList(terms, strengths)
                got, _ = obj.expectation_value_terms_sum(tl)
                exp = sum(s * ev(bra, M.jw_term(sites, t), ket) for s, t in zip(strengths, terms))
                require(abs(got - exp) < 10 * TOL, 'expectation_value_terms_sum', '%s vs %s' % (got, exp), **tags)
        elif which in ('corr', 'corr_opstr'):
            ferm = bool(which == 'corr' and 'fermionic' in classes and all(names_of(s, rng, True) is not None for s in sites) and rng.integers(0, 2) == 1)
            if which == 'corr' and ferm and L >= 2 and rng.integers(0, 3) == 0:
                # site-dependent operator lists: fermionic only where they are actually used
                ops1 = [names_of(s, rng, k % 2 == 0) for k, s in enumerate(sites)]
                ops2 = [names_of(s, rng, k % 2 == 1) for k, s in enumerate(sites)]
                s1 = list(range(0, L, 2))
                s2 = list(range(1, L, 2))
                try:
                    got = obj.correlation_function(ops1, ops2, sites1=s1, sites2=s2)
                except ValueError as e:
                    raise Violation('correlation_function-autoJW-refused', 'ops1 %s (sites %s) ops2 %s (sites %s): %s' % (ops1, s1, ops2, s2, str(e)[:100]), **tags)
                exp = np.array([[ev(bra, M.jw_term(sites, [(ops1[i], i), (ops2[j], j)]), ket) for j in s2] for i in s1])
                require(np.allclose(got, exp, atol=TOL), 'correlation_function', 'site dependent fermionic ops1 %s ops2 %s' % (ops1, ops2), fermionic=True, **tags)
                classes.append('corr-site-dependent-JW')
            elif which == 'corr':
                if ferm:
                    ops1 = [names_of(s, rng, True) for s in sites]
                    ops2 = [names_of(s, rng, True) for s in sites]
                else:
                    ops1 = [names_of(s, rng, False) for s in sites]
                    ops2 = [names_of(s, rng, False) for s in sites]
                s1 = sorted(rng.permutation(L)[:int(rng.integers(1, L + 1))].tolist())
                s2 = sorted(rng.permutation(L)[:int(rng.integers(1, L + 1))].tolist())
                herm = False
                kw = {}
                if rng.integers(0, 3) == 0:
                    s1 = s2 = None
                    kw = {}
                got = obj.correlation_function(ops1, ops2, sites1=s1, sites2=s2, **kw)
                r1 = s1 if s1 is not None else list(range(L))
                r2 = s2 if s2 is not None else list(range(L))
                exp = np.array([[ev(bra, M.jw_term(sites, [(ops1[i], i), (ops2[j], j)]), ket) for j in r2] for i in r1])
                require(np.shape(got) == exp.shape and np.allclose(got, exp, atol=TOL), 'correlation_function',
                        'ops1 %s ops2 %s sites1 %s sites2 %s: max dev %r at %s' % (ops1, ops2, s1, s2, float(np.max(np.abs(np.asarray(got) - exp))),
                                                                                   np.unravel_index(np.argmax(np.abs(np.asarray(got) - exp)), exp.shape)), fermionic=bool(ferm), **tags)
                classes.append('corr-fermionic' if ferm else 'corr-bosonic')
                # hermitian flag: ops2 = hc(ops1), equal site lists, MPS only
                if not spec['env']:
                    hc = [s.get_hc_op_name(o) for s, o in zip(sites, ops1)]
                    gh = obj.correlation_function(ops1, hc, hermitian=True)
                    eh = np.array([[ev(bra, M.jw_term(sites, [(ops1[i], i), (hc[j], j)]), ket) for j in range(L)] for i in range(L)])
                    require(np.allclose(gh, eh, atol=TOL), 'correlation_function-hermitian', 'ops1 %s' % ops1, fermionic=bool(ferm), **tags)
            else:
                ops1 = [names_of(s, rng, False) for s in sites]
                ops2 = [names_of(s, rng, False) for s in sites]
                opstr = [names_of(s, rng, False) for s in sites]
                sof = bool(rng.integers(0, 2))
                got = obj.correlation_function(ops1, ops2, opstr=opstr, str_on_first=sof)
                exp = np.zeros((L, L), dtype=complex)
                for i in range(L):
                    for j in range(L):
                        mats = {}

                        def mul(k, m, left=True):
                            cur = mats.get(k, np.eye(sites[k].dim))
                            mats[k] = m @ cur if left else cur @ m
                        # documented: i<j: ops1[i] prod_{i<=r<j} opstr[r] ops2[j]; i>j: prod_{j<=r<i} opstr[r] ops1[i] ops2[j]; strict < if not str_on_first
                        mul(j, M.op_matrix(sites[j], ops2[j]))
                        if i < j:
                            for r in range(i, j):
                                if r == i and not sof:
                                    continue
                                mul(r, M.op_matrix(sites[r], opstr[r]))
                            mul(i, M.op_matrix(sites[i], ops1[i]))
                        elif i > j:
                            mul(i, M.op_matrix(sites[i], ops1[i]))
                            for r in range(j, i):
                                if r == j and not sof:
                                    continue
                                mul(r, M.op_matrix(sites[r], opstr[r]))
                        else:
                            mul(i, M.op_matrix(sites[i], ops1[i]))
                        exp[i, j] = ev(bra, M.dense_op(sites, mats), ket)
                require(np.allclose(got, exp, atol=TOL), 'correlation_function-opstr', 'str_on_first=%r: max dev %r at %s' % (
                    sof, float(np.max(np.abs(np.asarray(got) - exp))), np.unravel_index(np.argmax(np.abs(np.asarray(got) - exp)), exp.shape)), str_on_first=sof, **tags)
        elif which in ('term_corr', 'term_list_corr'):
            if L < 3:
                raise Skip()
            # left term on sites [iL, iL+a], right term to the right of it
            a = int(rng.integers(1, 3))
            b = int(rng.integers(1, 3))
            if a + b > L:
                a, b = 1, 1

            def rel_term(n, offset_sites):
                """n operators on relative positions 0..n-1 (names valid for the sites at the given absolute offset)"""
                return [(None, k) for k in range(n)]
            iL = int(rng.integers(0, L - a - b + 1))
            js = sorted(set(int(x) for x in rng.integers(iL + a, L - b + 1, size=3)))
            if which == 'term_corr':
                left = int(rng.integers(0, 2))
                if left:
                    # vary the left term, fix the right one
                    jR = L - b
                    iLs = sorted(set(int(x) for x in rng.integers(0, jR - a + 1, size=3)))
                    # operator names must be valid on every position: use homogeneous choice per relative index via periodicity
                    ok = all(M.SITE_CFGS[spec['chain']['cfg'][0]] == M.SITE_CFGS[c] for c in spec['chain']['cfg'])
                    if not ok:
                        raise Skip()
                    ferm = bool(names_of(sites[0], rng, True) is not None and rng.integers(0, 2) == 1)
                    tL = [(names_of(sites[0], rng, ferm if k == 0 else False), k) for k in range(a)]
                    tR = [(names_of(sites[0], rng, ferm if k == 0 else False), k) for k in range(b)]
                    got = obj.term_correlation_function_left(tL, tR, i_L=iLs, j_R=jR)
                    exp = [ev(bra, M.jw_term(sites, [(n, k + i) for n, k in tL] + [(n, k + jR) for n, k in tR]), ket) for i in sorted(iLs)[::-1]]
                    require(np.allclose(got, exp, atol=TOL), 'term_correlation_function_left', 'tL %s tR %s i_L %s j_R %d: %s vs %s' % (tL, tR, iLs, jR, got, exp), fermionic=bool(ferm), **tags)
                    classes.append('tcf-left-fermionic' if ferm else 'tcf-left')
                else:
                    ok = len(set(spec['chain']['cfg'])) == 1
                    period = 1 if ok else None
                    ferm = bool(all(names_of(s, rng, True) is not None for s in sites) and rng.integers(0, 2) == 1)
                    # names depend on the absolute site: the library re-derives operators for every offset, so give names valid on all sites
                    common = None
                    for s in sites:
                        nm = set(n for n in s.opnames if not n.startswith('JW') and (s.op_needs_JW(n) == bool(ferm)))
                        common = nm if common is None else (common & nm)
                    common_b = None
                    for s in sites:
                        nm = set(n for n in s.opnames if not n.startswith('JW') and not s.op_needs_JW(n))
                        common_b = nm if common_b is None else (common_b & nm)
                    if not common or not common_b:
                        raise Skip()
                    common, common_b = sorted(common), sorted(common_b)
                    pick = lambda lst: lst[int(rng.integers(0, len(lst)))]  # noqa: E731
                    tL = [(pick(common) if k == 0 else pick(common_b), k) for k in range(a)]
                    tR = [(pick(common) if k == 0 else pick(common_b), k) for k in range(b)]
                    got = obj.term_correlation_function_right(tL, tR, i_L=iL, j_R=js)
                    exp = [ev(bra, M.jw_term(sites, [(n, k + iL) for n, k in tL] + [(n, k + j) for n, k in tR]), ket) for j in js]
                    require(np.allclose(got, exp, atol=TOL), 'term_correlation_function_right', 'tL %s tR %s i_L %d j_R %s: %s vs %s' % (tL, tR, iL, js, got, exp),
                            fermionic=bool(ferm), hetero=not ok, **tags)
                    classes.append('tcf-right-fermionic' if ferm else 'tcf-right')
                    if not ok:
                        classes.append('tcf-hetero')
            else:
                common_b = None
                for s in sites:
                    # all terms of one list must carry the same total charge (they are summed as charge-conserving tensors)
                    nm = set(n for n in s.opnames if not n.startswith('JW') and not s.op_needs_JW(n) and not np.any(s.get_op(n).qtotal))
                    common_b = nm if common_b is None else (common_b & nm)
                common_b = sorted(common_b)
                pick = lambda lst: lst[int(rng.integers(0, len(lst)))]  # noqa: E731
                TL = TermList([[(pick(common_b), k) for k in range(a)] for _ in range(2)], [1.5, -0.5j])
                TR = TermList([[(pick(common_b), k) for k in range(b)] for _ in range(2)], [2.0, 1j])
                got = obj.term_list_correlation_function_right(TL, TR, i_L=iL, j_R=js)
                exp = []
                for j in js:
                    tot = 0
                    for sl, tl in zip(TL.strength, TL.terms):
                        for sr, tr in zip(TR.strength, TR.terms):
                            tot += sl * sr * ev(bra, M.jw_term(sites, [(n, k + iL) for n, k in tl] + [(n, k + j) for n, k in tr]), ket)
                    exp.append(tot)
                require(np.allclose(got, exp, atol=10 * TOL), 'term_list_correlation_function_right', '%s vs %s' % (got, exp), **tags)
    return {'nontrivial': bool(nontrivial), 'classes': classes}


# ------------------------------------------------------------------------------------------------
# reduced density matrices, entropies, overlaps, charge statistics, sampling


@st.composite
def rho_specs(draw, tier):
    return {'chain': draw(M.chain_specs(2, 6, max_dim=2 ** 10)), 'seed': draw(st.integers(0, 10 ** 6)),
            'which': draw(st.sampled_from(['rho_segment', 'entropy_segment', 'mutinf', 'overlap', 'charge_stats', 'sample', 'sample']))}


def reduced_rho(vec, dims, keep):
    L = len(dims)
    psi = vec.reshape(dims)
    rest = [k for k in range(L) if k not in keep]
    m = np.transpose(psi, list(keep) + rest).reshape(int(np.prod([dims[k] for k in keep])), -1)
    return m @ m.conj().T


def run_rho(spec):
    from tenpy.networks.mps import MPS
    rng = np.random.default_rng(spec['seed'] + 2)
    which = spec['which']
    tags = dict(fn=which)
    with warnings.catch_warnings():
        warnings.simplefilter('ignore')
        sites, psi, vec, q = build_state(spec['chain'], spec['seed'])
        L = len(sites)
        dims = [s.dim for s in sites]
        if which == 'rho_segment':
            n = int(rng.integers(1, min(3, L) + 1))
            seg = sorted(rng.permutation(L)[:n].tolist())
            rho = psi.get_rho_segment(seg)
            labs = ['p%d' % k for k in range(n)] + ['p%d*' % k for k in range(n)]
            d = np.transpose(rho.to_ndarray(), [rho.get_leg_index(l) for l in labs])
            D = int(np.prod([dims[k] for k in seg]))
            d = d.reshape(D, D)
            ref = reduced_rho(vec, dims, seg)
            require(np.allclose(d, ref, atol=TOL), 'get_rho_segment', 'segment %s: max dev %r' % (seg, float(np.max(np.abs(d - ref)))), consecutive=bool(seg == list(range(seg[0], seg[0] + n))), **tags)
        elif which == 'entropy_segment':
            n = int(rng.integers(1, min(3, L) + 1))
            first = int(rng.integers(0, L - n + 1))
            seg = list(range(n))
            Sv = psi.entanglement_entropy_segment(seg, first_site=[first], n=1)
            ref = reduced_rho(vec, dims, [first + k for k in seg])
            w = np.linalg.eigvalsh(ref)
            w = w[w > 1e-14]
            require(abs(Sv[0] - float(-np.sum(w * np.log(w)))) < 1e-8, 'entanglement_entropy_segment', '%r vs %r' % (Sv[0], float(-np.sum(w * np.log(w)))), **tags)
            seg2 = sorted(rng.permutation(L)[:n].tolist())
            S2 = psi.entanglement_entropy_segment2(seg2)
            ref2 = reduced_rho(vec, dims, seg2)
            w = np.linalg.eigvalsh(ref2)
            w = w[w > 1e-14]
            require(abs(S2 - float(-np.sum(w * np.log(w)))) < 1e-8, 'entanglement_entropy_segment2', 'segment %s: %r vs %r' % (seg2, S2, float(-np.sum(w * np.log(w)))), **tags)
        elif which == 'mutinf':
            coords, mi = psi.mutinf_two_site()

            def S_of(keep):
                w = np.linalg.eigvalsh(reduced_rho(vec, dims, keep))
                w = w[w > 1e-14]
                return float(-np.sum(w * np.log(w)))
            for (i, j), v in zip(coords, mi):
                ref = S_of([i]) + S_of([j]) - S_of([i, j])
                require(abs(v - ref) < 1e-8, 'mutinf_two_site', '(%d,%d): %r vs %r' % (i, j, v, ref), **tags)
            require(len(coords) == L * (L - 1) // 2, 'mutinf-coords', '', **tags)
        elif which == 'overlap':
            phi, vec2 = second_state(sites, q, spec['seed'] + 5)
            psi.norm, phi.norm = 0.7, 1.3
            ov = psi.overlap(phi)
            ref = np.vdot(vec.ravel() * 0.7, vec2.ravel() * 1.3)
            require(abs(ov - ref) < TOL, 'overlap', '%r vs %r' % (ov, ref), **tags)
            require(abs(psi.overlap(psi) - 0.49) < TOL, 'overlap-self', '', **tags)
        elif which == 'charge_stats':
            if sites[0].leg.chinfo.qnumber == 0:
                raise Skip()
            b = int(rng.integers(0, L))
            charges, ps = psi.probability_per_charge(b)
            # distribution of the charge left of the bond: sum_{i<b} q_i (up to the constant fixed by the leg convention)
            mod = [int(m) for m in sites[0].leg.chinfo.mod]
            amp = np.abs(vec.reshape(dims)) ** 2
            dist = {}
            for idx in itertools.product(*[range(dm) for dm in dims]):
                p = amp[idx]
                if p < 1e-16:
                    continue
                qq = np.zeros(len(mod), dtype=np.int64)
                for k in range(b):
                    qq = qq + M.site_charges(sites[k])[idx[k]]
                qq = tuple(int(x) if m == 1 else int(x) % m for x, m in zip(qq, mod))
                dist[qq] = dist.get(qq, 0) + p
            got = {}
            for c, p in zip(charges, ps):
                if p > 1e-14:
                    got[tuple(int(x) for x in c)] = got.get(tuple(int(x) for x in c), 0) + p
            # same multiset of probabilities, charges equal up to one common shift and sign convention of the leg
            require(np.allclose(sorted(got.values()), sorted(dist.values()), atol=1e-9), 'probability_per_charge', 'bond %d: %s vs %s' % (b, got, dist), **tags)
            require(abs(sum(ps) - 1) < 1e-9, 'probabilities-sum', '', **tags)
            if len(dist) >= 1:
                # the shift/sign: charges_got = sign * charges_ref + const; check mean and variance
                avg = psi.average_charge(b)
                var = psi.charge_variance(b)
                keys = list(dist.keys())
                pr = np.array([dist[k] for k in keys])
                arr = np.array(keys, dtype=float)
                if all(m == 1 for m in mod):
                    mean = (pr[:, None] * arr).sum(axis=0)
                    v = (pr[:, None] * (arr - mean) ** 2).sum(axis=0)
                    require(np.allclose(var, v, atol=1e-8), 'charge_variance', '%s vs %s' % (var, v), **tags)
                    gk = np.array(list(got.keys()), dtype=float)
                    gp = np.array(list(got.values()))
                    gmean = (gp[:, None] * gk).sum(axis=0)
                    require(np.allclose(avg, gmean, atol=1e-8), 'average_charge', '%s vs %s' % (avg, gmean), **tags)
        elif which == 'sample':
            first = int(rng.integers(0, L))
            last = int(rng.integers(first, L))
            full = (first == 0 and last == L - 1)
            complex_amp = bool(rng.integers(0, 2))
            use_ops = bool(rng.integers(0, 3) == 0)
            np.random.seed(spec['seed'] % (2 ** 31))
            kw = dict(first_site=first, last_site=last, complex_amplitude=complex_amp, rng=np.random.default_rng(spec['seed']))
            if use_ops:
                # measure diagonal operators given by name: eigenbasis = computational basis
                ops = []
                for s in sites[:2]:
                    cand = [n for n in sorted(s.opnames) if np.allclose(M.op_matrix(s, n), np.diag(np.diag(M.op_matrix(s, n)))) and
                            len(set(np.round(np.diag(M.op_matrix(s, n)).real, 9))) == s.dim and np.allclose(np.diag(M.op_matrix(s, n)).imag, 0)]
                    if not cand:
                        raise Skip()
                    ops.append(cand[int(rng.integers(0, len(cand)))])
                if len(set(spec['chain']['cfg'])) > 1:
                    raise Skip()
                kw['ops'] = ops
            sigmas, weight = psi.sample_measurements(**kw)
            require(len(sigmas) == last - first + 1, 'sample-length', '', **tags)
            # probability of the outcome = || P_outcome |psi> ||^2
            state = vec.reshape(dims)
            idxs = []
            for k, sg in enumerate(sigmas):
                site_i = first + k
                if use_ops:
                    name = kw['ops'][k % len(kw['ops'])]  # documented: ops[(i - first_site) % len(ops)]
                    dg = np.diag(M.op_matrix(sites[site_i], name)).real
                    cand = np.nonzero(np.abs(dg - sg) < 1e-9)[0]
                    require(len(cand) == 1, 'sample-outcome-not-eigenvalue', 'site %d: outcome %r is not an eigenvalue of %s %s' % (site_i, sg, name, dg), use_ops=True, **tags)
                    idxs.append(int(cand[0]))
                else:
                    require(float(sg).is_integer() and 0 <= int(sg) < dims[site_i], 'sample-outcome', repr(sg), **tags)
                    idxs.append(int(sg))
            sl = [slice(None)] * L
            for k, ix in enumerate(idxs):
                sl[first + k] = ix
            part = state[tuple(sl)]
            prob = float(np.sum(np.abs(part) ** 2))
            if complex_amp:
                require(abs(abs(weight) ** 2 - prob) < 1e-9, 'sample-weight-amplitude', '|weight|^2 = %r, Born probability %r (sites %d..%d)' % (abs(weight) ** 2, prob, first, last),
                        complex_amplitude=True, use_ops=use_ops, **tags)
                if full and not use_ops:
                    require(abs(weight - state[tuple(idxs)]) < 1e-9, 'sample-weight-phase', '%r vs amplitude %r' % (weight, state[tuple(idxs)]), **tags)
            else:
                require(abs(weight - prob) < 1e-9, 'sample-weight-probability', 'weight %r, Born probability %r (sites %d..%d, %d sites)' % (weight, prob, first, last, last - first + 1),
                        complex_amplitude=False, use_ops=use_ops, nsites=min(last - first + 1, 2), **tags)
    return {'nontrivial': max(psi.chi) >= 2, 'classes': [which]}


# ------------------------------------------------------------------------------------------------
# infinite MPS on a window: reference = reduced density matrix of the window from the dominant eigenvectors of the dense
# unit-cell transfer matrix (no canonical form assumed, nothing of tenpy's measurement code used)

INF_CFGS = [0, 1, 2, 4, 7, 8, 10, 12]


@st.composite
def infw_specs(draw, tier):
    L = draw(st.integers(1, 3))
    return {'cfg': draw(st.sampled_from(INF_CFGS)), 'L': L, 'chi': draw(st.integers(2, 4)), 'seed': draw(st.integers(0, 10 ** 6)), 'start': draw(st.integers(-3, 3)),
            'p_state': [draw(st.integers(0, 3)) for _ in range(L)], 'forms': [draw(st.sampled_from(['B', 'B', 'A', 'C', 'G', 'Th'])) for _ in range(L)],
            'which': draw(st.sampled_from(['onsite', 'multi_sites', 'term', 'corr', 'corr', 'entropy', 'rho_segment', 'overlap']))}


def _dominant(cell):
    """(l, r, lambda, gap) of the transfer matrix of the list of tensors (vL, p, vR): l on the left bond, r on the right bond of the cell"""
    T = None
    for B in cell:
        t = np.einsum('apc,bpd->abcd', B, B.conj())
        t = t.reshape(t.shape[0] * t.shape[1], t.shape[2] * t.shape[3])
        T = t if T is None else T @ t
    chi = cell[0].shape[0]
    wr, vr = np.linalg.eig(T)
    k = int(np.argmax(np.abs(wr)))
    order = np.sort(np.abs(wr))[::-1]
    gap = 1. - (order[1] / order[0] if len(order) > 1 else 0.)
    wl, vl = np.linalg.eig(T.T)
    kl = int(np.argmax(np.abs(wl)))
    return vl[:, kl].reshape(chi, chi), vr[:, k].reshape(chi, chi), wr[k], gap


def random_imps(site, L, chi, p_state):
    """a few layers of random two-site unitaries on an infinite product state (a bounded version of
    MPS.from_random_unitary_evolution, which iterates until chi is reached - never, for a polarized state with charges)"""
    from tenpy.networks.mps import MPS
    from tenpy.algorithms.tebd import RandomUnitaryEvolution
    Leff = max(L, 2)  # TEBD needs two sites
    p_state = (list(p_state) * 2)[:Leff]
    if len(set(p_state)) == 1:
        p_state[-1] = (p_state[-1] + 1) % site.dim  # a uniformly polarized state can not be entangled by charge conserving gates
    psi = MPS.from_product_state([site] * Leff, p_state, bc='infinite', dtype=complex, unit_cell_width=Leff)
    eng = RandomUnitaryEvolution(psi, dict(N_steps=4, trunc_params={'chi_max': chi}))
    eng.run()
    psi.canonical_form()
    return psi


def run_infw(spec):
    from tenpy.networks.mps import MPS
    rng = np.random.default_rng(spec['seed'] + 5)
    with warnings.catch_warnings():
        warnings.simplefilter('ignore')
        cfg = M.SITE_CFGS[spec['cfg']]
        site = M.make_site(cfg)
        d = site.dim
        L = spec['L']
        np.random.seed(spec['seed'] % (2 ** 31))
        p_state = [k % d for k in spec['p_state']]
        psi = random_imps(site, L, spec['chi'], p_state)
        if max(psi.chi) < 2:
            raise Skip()
        L = psi.L
        spec = dict(spec, forms=(list(spec['forms']) * 2)[:L])
        Bs = []
        for i in range(L):
            B = psi.get_B(i, 'B')
            Bs.append(np.transpose(B.to_ndarray(), [B.get_leg_index('vL'), B.get_leg_index('p'), B.get_leg_index('vR')]))
        a = spec['start']
        w = max(L + 1, min(2 * L + 2, int(np.floor(np.log(600) / np.log(d)))))
        l, _, lam, gap1 = _dominant([Bs[(a + k) % L] for k in range(L)])
        _, r, _, gap2 = _dominant([Bs[(a + w + k) % L] for k in range(L)])
        if min(gap1, gap2) < 1e-4:
            raise Skip()  # (nearly) degenerate transfer matrix: the infinite state is not a single pure state
        require(abs(abs(lam) - 1.) < 1e-8, 'harness-normalization', 'dominant eigenvalue %r' % lam)
        Th = Bs[a % L]
        for k in range(1, w):
            Th = np.tensordot(Th, Bs[(a + k) % L], axes=(Th.ndim - 1, 0))
        Th = Th.reshape(Th.shape[0], d ** w, Th.shape[-1])
        rho = np.einsum('ab,apc,bqd,cd->pq', l, Th, Th.conj(), r)
        rho = rho / np.trace(rho)
        require(np.linalg.norm(rho - rho.conj().T) < 1e-9, 'harness-rho-hermitian', '')
        wsites = [site] * w
        ev_ = lambda O: np.trace(O @ rho)
        # the measurement functions have to work for every canonical form
        psi.convert_form(spec['forms'])
        which = spec['which']
        tags = dict(fn=which, bc='infinite')
        fermionic = cfg[0] in M.FERMIONIC
        classes = ['inf:' + which, 'L=%d' % L] + (['fermionic'] if fermionic else []) + (['form:B'] if all(f == 'B' for f in spec['forms']) else ['form:other'])
        win = list(range(a, a + w))
        if which == 'onsite':
            name = names_of(site, rng, fermionic=False)
            got = psi.expectation_value(name, sites=win)
            exp = [ev_(M.dense_op(wsites, {k: M.op_matrix(site, name)})) for k in range(w)]
            require(np.allclose(got, exp, atol=TOL), 'expectation_value', '%s on sites %s: %s vs %s' % (name, win, np.round(got, 8).tolist(), np.round(exp, 8).tolist()), **tags)
            got0 = psi.expectation_value(name)  # default: the sites of one unit cell
            ref0 = {i % L: e for i, e in zip(win, exp)}
            require(np.allclose(got0, [ref0[i] for i in range(L)], atol=TOL), 'expectation_value', 'default sites: %s' % np.round(got0, 8).tolist(), default_sites=True, **tags)
        elif which == 'multi_sites':
            n = int(rng.integers(1, min(4, w) + 1))
            k0 = int(rng.integers(0, w - n + 1))
            names = [names_of(site, rng, False) for _ in range(n)]
            got = psi.expectation_value_multi_sites(names, a + k0)
            exp = ev_(M.dense_op(wsites, {k0 + k: M.op_matrix(site, names[k]) for k in range(n)}))
            require(abs(got - exp) < TOL, 'expectation_value_multi_sites', '%s at %d: %s vs %s' % (names, a + k0, got, exp), **tags)
        elif which == 'term':
            n = int(rng.integers(1, 5))
            term = [(names_of(site, rng), int(rng.integers(0, w))) for _ in range(n)]
            nf = sum(site.op_needs_JW(nm) for nm, _ in term)
            if nf % 2:
                term.append((names_of(site, rng, True), int(rng.integers(0, w))))
            got = psi.expectation_value_term([(nm, a + k) for nm, k in term])
            exp = ev_(M.jw_term(wsites, term))
            require(abs(got - exp) < TOL, 'expectation_value_term', 'term %s (window starts at %d): %s vs %s' % (term, a, got, exp), **tags)
            classes.append('term-fermionic' if nf else 'term-bosonic')
        elif which == 'corr':
            ferm = fermionic and bool(rng.integers(0, 2))
            o1, o2 = names_of(site, rng, ferm), names_of(site, rng, ferm)
            s1 = sorted(rng.permutation(w)[:int(rng.integers(1, w + 1))].tolist())
            s2 = sorted(rng.permutation(w)[:int(rng.integers(1, w + 1))].tolist())
            got = psi.correlation_function(o1, o2, sites1=[a + k for k in s1], sites2=[a + k for k in s2])
            exp = np.array([[ev_(M.jw_term(wsites, [(o1, i), (o2, j)])) for j in s2] for i in s1])
            require(np.allclose(got, exp, atol=TOL), 'correlation_function', '%s %s sites1 %s sites2 %s: max dev %r' % (o1, o2, s1, s2, float(np.max(np.abs(got - exp)))),
                    fermionic=ferm, **tags)
            classes.append('corr-fermionic' if ferm else 'corr-bosonic')
        elif which == 'entropy':
            got = psi.entanglement_entropy()
            exp = []
            for b in range(L):
                lb, rb, _, g = _dominant([Bs[(b + k) % L] for k in range(L)])
                if g < 1e-4:
                    raise Skip()
                sp = np.linalg.eigvals(lb.T @ rb)
                sp = np.real(sp / np.sum(sp))
                sp = sp[sp > 1e-15]
                exp.append(float(-np.sum(sp * np.log(sp))))
            require(np.allclose(got, exp, atol=1e-7), 'entanglement_entropy', '%s vs %s' % (np.round(got, 8).tolist(), np.round(exp, 8).tolist()), **tags)
        elif which == 'rho_segment':
            n = int(rng.integers(1, min(3, w) + 1))
            seg = sorted(rng.permutation(w)[:n].tolist())
            R = psi.get_rho_segment([a + k for k in seg])
            lab = ['p%d' % k for k in range(n)] + ['p%d*' % k for k in range(n)]
            got = np.transpose(R.to_ndarray(), [R.get_leg_index(x) for x in lab]).reshape(d ** n, d ** n)
            t = rho.reshape([d] * (2 * w))
            keep = seg
            other = [k for k in range(w) if k not in keep]
            t = np.transpose(t, keep + other + [w + k for k in keep] + [w + k for k in other]).reshape(d ** n, d ** (w - n), d ** n, d ** (w - n))
            exp = np.einsum('aibi->ab', t)
            require(np.allclose(got, exp, atol=TOL), 'get_rho_segment', 'segment %s (window starts at %d): max dev %r' % (seg, a, float(np.max(np.abs(got - exp)))),
                    consecutive=bool(seg == list(range(seg[0], seg[0] + n))), **tags)
        elif which == 'overlap':
            np.random.seed((spec['seed'] + 1) % (2 ** 31))
            phi = random_imps(site, L, spec['chi'], p_state)
            Cs = []
            for i in range(L):
                B = phi.get_B(i, 'B')
                Cs.append(np.transpose(B.to_ndarray(), [B.get_leg_index('vL'), B.get_leg_index('p'), B.get_leg_index('vR')]))
            T = None
            for B, C in zip(Bs, Cs):
                t = np.einsum('apc,bpd->abcd', C, B.conj())  # <psi|phi>: bra psi conjugated
                t = t.reshape(t.shape[0] * t.shape[1], t.shape[2] * t.shape[3])
                T = t if T is None else T @ t
            ev2 = np.linalg.eigvals(T)
            ev2 = ev2[np.argsort(-np.abs(ev2))]
            if len(ev2) > 1 and abs(ev2[1]) > (1 - 1e-6) * abs(ev2[0]):
                raise Skip()  # dominant eigenvalue not unique in modulus
            try:
                got = psi.overlap(phi)
            except Exception as e:
                if type(e).__name__ == 'ArpackError' and np.max(np.abs(T)) < 1e-14:
                    # the two states share no charge sector on some bond: the overlap per unit cell is exactly 0
                    raise Violation('overlap-infinite-vanishing-transfer-matrix', 'psi.overlap(phi) raises %s: %s although the mixed transfer matrix vanishes identically '
                                    '(overlap 0)' % (type(e).__name__, e), **tags)
                raise
            require(abs(got - ev2[0]) < 1e-7, 'overlap-infinite', 'psi.overlap(phi) = %r, dominant eigenvalue of the mixed transfer matrix %r' % (got, ev2[0]), **tags)
            got1 = psi.overlap(psi)
            require(abs(got1 - 1.) < 1e-8, 'overlap-infinite', 'psi.overlap(psi) = %r' % got1, same=True, **tags)
    return {'nontrivial': True, 'classes': classes}


# ------------------------------------------------------------------------------------------------
# segment MPS: a segment cut out of a finite chain measures what the parent chain measures on those sites


@st.composite
def segw_specs(draw, tier):
    return {'chain': draw(M.chain_specs(4, 6, max_dim=2 ** 10)), 'seed': draw(st.integers(0, 10 ** 6)), 'cut': [draw(st.integers(0, 2)), draw(st.integers(0, 2))],
            'forms': [draw(st.sampled_from(['B', 'B', 'A', 'C', 'G', 'Th'])) for _ in range(6)], 'norm': draw(st.sampled_from([1.0, 0.5, 2.0])),
            'which': draw(st.sampled_from(['onsite', 'multi_sites', 'term', 'corr', 'corr', 'entropy', 'rho_segment']))}


def run_segw(spec):
    from tenpy.networks.mps import MPS
    rng = np.random.default_rng(spec['seed'] + 9)
    with warnings.catch_warnings():
        warnings.simplefilter('ignore')
        psites = M.build_sites(spec['chain'])
        Lp = len(psites)
        first = min(spec['cut'][0], Lp - 2)
        last = max(first + 1, Lp - 1 - spec['cut'][1])
        if first == 0 and last == Lp - 1:
            first = 1
        vec, q = M.random_state(psites, spec['seed'])
        parent = MPS.from_full(psites, M.to_npc_state(psites, vec, q), form='B')
        seg = parent.extract_segment(first, last)
        seg.norm = spec['norm']  # (MPS methods ignore psi.norm)
        n = seg.L
        seg.convert_form(spec['forms'][:n])
        sites = list(seg.sites)
        v = vec.ravel()
        ev_ = lambda O: np.vdot(v, O @ v)
        which = spec['which']
        tags = dict(fn=which, bc='segment')
        fermionic = any(M.SITE_CFGS[c][0] in M.FERMIONIC for c in spec['chain']['cfg'])
        classes = ['seg:' + which, 'cut:%s' % ('both' if first > 0 and last < Lp - 1 else 'one-sided')] + (['fermionic'] if fermionic else [])
        if which == 'onsite':
            ops = [names_of(s_, rng, fermionic=False) for s_ in sites]
            got = seg.expectation_value(ops)
            exp = [ev_(M.dense_op(psites, {first + k: M.op_matrix(sites[k], ops[k])})) for k in range(n)]
            require(np.allclose(got, exp, atol=TOL), 'expectation_value', 'segment %d..%d ops %s: %s vs %s' % (first, last, ops, np.round(got, 8).tolist(), np.round(exp, 8).tolist()), **tags)
        elif which == 'multi_sites':
            m = int(rng.integers(1, min(4, n) + 1))
            k0 = int(rng.integers(0, n - m + 1))
            names = [names_of(sites[k0 + k], rng, False) for k in range(m)]
            got = seg.expectation_value_multi_sites(names, k0)
            exp = ev_(M.dense_op(psites, {first + k0 + k: M.op_matrix(sites[k0 + k], names[k]) for k in range(m)}))
            require(abs(got - exp) < TOL, 'expectation_value_multi_sites', '%s at %d: %s vs %s' % (names, k0, got, exp), **tags)
        elif which == 'term':
            m = int(rng.integers(1, 5))
            term = []
            for _ in range(m):
                k = int(rng.integers(0, n))
                term.append((names_of(sites[k], rng), k))
            nf = sum(sites[k].op_needs_JW(nm) for nm, k in term)
            if nf % 2:
                cand = [k for k in range(n) if names_of(sites[k], rng, True) is not None]
                k = cand[int(rng.integers(0, len(cand)))]
                term.append((names_of(sites[k], rng, True), k))
            got = seg.expectation_value_term(term)
            exp = ev_(M.jw_term(psites, [(nm, first + k) for nm, k in term]))
            require(abs(got - exp) < TOL, 'expectation_value_term', 'term %s in segment %d..%d: %s vs %s' % (term, first, last, got, exp), **tags)
            classes.append('term-fermionic' if nf else 'term-bosonic')
        elif which == 'corr':
            ferm = fermionic and all(names_of(s_, rng, True) is not None for s_ in sites) and bool(rng.integers(0, 2))
            ops1 = [names_of(s_, rng, ferm) for s_ in sites]
            ops2 = [names_of(s_, rng, ferm) for s_ in sites]
            got = seg.correlation_function(ops1, ops2)
            exp = np.array([[ev_(M.jw_term(psites, [(ops1[i], first + i), (ops2[j], first + j)])) for j in range(n)] for i in range(n)])
            require(np.allclose(got, exp, atol=TOL), 'correlation_function', 'segment %d..%d ops1 %s ops2 %s: max dev %r' % (first, last, ops1, ops2, float(np.max(np.abs(got - exp)))),
                    fermionic=ferm, **tags)
            classes.append('corr-fermionic' if ferm else 'corr-bosonic')
        elif which == 'entropy':
            got = seg.entanglement_entropy(bonds=list(range(0, n + 1)))
            dimsp = [s_.dim for s_ in psites]
            exp = []
            for b in range(first, last + 2):
                sv = np.linalg.svd(vec.reshape(int(np.prod(dimsp[:b])), -1), compute_uv=False) if 0 < b < Lp else np.array([1.])
                w_ = sv ** 2
                w_ = w_[w_ > 1e-30]
                exp.append(float(-np.sum(w_ * np.log(w_))))
            require(np.allclose(got, exp, atol=1e-8), 'entanglement_entropy', 'segment %d..%d: %s vs %s' % (first, last, np.round(got, 8).tolist(), np.round(exp, 8).tolist()), **tags)
        elif which == 'rho_segment':
            m = int(rng.integers(1, min(3, n) + 1))
            sel = sorted(rng.permutation(n)[:m].tolist())
            R = seg.get_rho_segment(sel)
            lab = ['p%d' % k for k in range(m)] + ['p%d*' % k for k in range(m)]
            got = np.transpose(R.to_ndarray(), [R.get_leg_index(x) for x in lab])
            dimsp = [s_.dim for s_ in psites]
            keep = [first + k for k in sel]
            other = [k for k in range(Lp) if k not in keep]
            t = np.transpose(vec.reshape(dimsp), keep + other).reshape(int(np.prod([dimsp[k] for k in keep])), -1)
            exp = (t @ t.conj().T)
            got = got.reshape(exp.shape)
            require(np.allclose(got, exp, atol=TOL), 'get_rho_segment', 'sites %s of segment %d..%d: max dev %r' % (sel, first, last, float(np.max(np.abs(got - exp)))), **tags)
    return {'nontrivial': max(seg.chi) >= 2, 'classes': classes}


SUBCHECKS = [
    Sub('segment_window', segw_specs, run_segw, quick=400, thorough=20000),
    Sub('infinite_window', infw_specs, run_infw, quick=400, thorough=20000),
    Sub('expectation_values', ev_specs, run_ev, quick=1600, thorough=80000),
    Sub('rho_charges_sampling', rho_specs, run_rho, quick=800, thorough=40000),
]
