"""C05 - Matrix factorizations are exact, structured and charge-compatible."""
import warnings

import numpy as np
import scipy.linalg
from hypothesis import strategies as st

from vf.core import Sub, Violation, require, Skip
from vf import gen, dense as D, inv

LEVEL = 'exploration'
RULE = ('Generated block-sparse matrices: rank-2 tensors with raw (unsorted / duplicate-charge / unblocked) legs, or rank 3-4 '
        'tensors combined into two pipes, 0-2 charges, float/complex, with explicit structure classes: missing blocks, sector '
        'present on one side only, stored zero block, rank-deficient (rank-1 integer) block, tall/wide/1xn blocks, nonzero '
        'qtotal; square/hermitian matrices with contractible legs for eigh/eig/expm/speigs. Functions x full option lattice: '
        'svd(full_matrices, compute_uv, cutoff, qtotal_LR, inner_qconj, inner_labels), qr/lq(mode, cutoff, pos_diag, qtotal_Q, '
        'inner_qconj), eigh/eigvalsh(UPLO, sort), eig/eigvals(sort), expm, pinv, polar(left), orthogonal_columns, speigs. Oracle: '
        'dense reconstruction, isometry/unitarity, S>=0 and equal to numpy singular values, triangularity, eigenpair residuals, '
        'Moore-Penrose identities, requested qtotals, contractible inner legs, storage invariants of every factor. '
        'Non-trivial: >= 2 charge sectors in the matrix and (a hard structure feature or a non-default option). Distinct = distinct spec.')
ASSUMPTIONS = ['numpy.linalg / scipy.linalg dense routines as reference', 'tolerance 1e-10 * max(1, |a|)']

TOL = 1e-10


@st.composite
def matrix_specs(draw, tier, square=False):
    ch = draw(gen.chinfo_specs(2))
    mod = ch['mod']
    if square:
        leg = draw(gen.leg_specs(mod, max_blocks=4, max_size=3))
        spec = {'ch': ch, 'kind': 'square', 'legs': [leg], 'pipe': draw(st.booleans()) and False}
    else:
        kind = draw(st.sampled_from(['raw', 'raw', 'pipes']))
        n = 2 if kind == 'raw' else draw(st.integers(3, 4))
        legs = [draw(gen.leg_specs(mod, max_blocks=4 if kind == 'raw' else 3, max_size=3 if kind == 'raw' else 2)) for _ in range(n)]
        spec = {'ch': ch, 'kind': kind, 'legs': legs}
        if kind == 'pipes':
            spec['cut'] = draw(st.integers(1, n - 1))
            spec['pipe_qconj'] = [draw(st.sampled_from([1, -1])), draw(st.sampled_from([1, -1]))]
    fill = draw(gen.fill_specs(('float64', 'complex128')))
    fill['kind'] = draw(st.sampled_from(['gauss', 'gauss', 'int']))
    spec['fill'] = fill
    spec['qt'] = draw(st.integers(0, 40))
    spec['rank1'] = draw(st.sampled_from([0, 0, 0, 3, 6]))  # tenths of blocks replaced by rank-1 blocks
    spec['labels'] = draw(st.sampled_from([['a', 'b'], [None, None], ['vL', 'vR'], ['p', 'p*']]))
    return spec


def build_matrix(spec):
    """-> (npc matrix, dense, info)"""
    from tenpy.linalg import np_conserved as npc
    chinfo = gen.build_chinfo(spec['ch'])
    legs = [gen.build_leg(chinfo, l) for l in spec['legs']]
    if spec['kind'] == 'square':
        legs = [legs[0], legs[0].conj()]
        tspec = {'fill': spec['fill'], 'qt': 'arb', 'qarb': [0, 0, 0, 0], 'labels': spec['labels']}
    else:
        tspec = {'fill': spec['fill'], 'qt': spec['qt']}
        if spec['kind'] == 'raw':
            tspec['labels'] = spec['labels']
    a, dense, info = gen.build_array(legs, tspec, chinfo)
    # rank-deficient blocks
    if spec['rank1'] and a.rank == 2:
        rng = np.random.default_rng(spec['fill']['seed'] + 17)
        for k in range(len(a._data)):
            if rng.integers(0, 10) < spec['rank1']:
                m, n = a._data[k].shape
                u = rng.integers(-2, 3, size=m).astype(a.dtype)
                v = rng.integers(-2, 3, size=n).astype(a.dtype)
                if a.dtype.kind == 'c':
                    u = u + 1j * rng.integers(-2, 3, size=m)
                blk = np.outer(u, v)
                a._data[k] = np.array(blk, dtype=a.dtype)
                sl = tuple(slice(int(l.slices[q]), int(l.slices[q + 1])) for l, q in zip(a.legs, a._qdata[k]))
                dense[sl] = blk
                info['rank1'] = True
    if spec['kind'] == 'pipes':
        cut = spec['cut']
        n = len(legs)
        a.iset_leg_labels(['l%d' % k for k in range(n)])
        a = a.combine_legs([list(range(cut)), list(range(cut, n))], qconj=spec['pipe_qconj'])
        dense = a.to_ndarray()  # combine_legs is checked in C01/C06
        a.iset_leg_labels(spec['labels'])
    a.test_sanity()
    nsect = len(set(tuple(r) for r in D.signed_qflat(a.legs[0]).tolist()))
    info['sectors'] = nsect
    return a, dense, info


def isom_defect_cols(M):
    """|| M^dagger M - 1 ||"""
    return np.linalg.norm(M.conj().T @ M - np.eye(M.shape[1]))


def check_factor(x, name, fn):
    inv.check_array(x, fn)
    d = x.to_ndarray()
    require(np.all(np.isfinite(d)), 'nan-or-inf', name, fn=fn)
    return d


def contractible(l1, l2):
    try:
        l1.test_contractible(l2)
        return True
    except ValueError:
        return False


# ------------------------------------------------------------------------------------------------


@st.composite
def case_specs(draw, tier):
    fn = draw(st.sampled_from(['svd', 'svd', 'svd', 'qr', 'qr', 'lq', 'eigh', 'eig', 'expm', 'pinv', 'polar', 'orthogonal_columns', 'speigs']))
    square = fn in ('eigh', 'eig', 'expm', 'speigs')
    m = draw(matrix_specs(tier, square=square))
    o = {}
    if fn == 'svd':
        o['full_matrices'] = draw(st.sampled_from([False, False, True]))
        o['compute_uv'] = draw(st.sampled_from([True, True, True, False]))
        o['cutoff'] = draw(st.sampled_from([None, None, 1e-12, 0.3, 1.0]))
        o['qtotal_LR'] = draw(st.sampled_from(['nn', 'qn', 'nq', 'qq', 'rn', 'nr']))
        o['inner_qconj'] = draw(st.sampled_from([1, -1]))
        o['inner_labels'] = draw(st.sampled_from([[None, None], ['vR', 'vL'], ['x', None]]))
        o['qseed'] = draw(st.integers(0, 100))
    elif fn in ('qr', 'lq'):
        o['mode'] = draw(st.sampled_from(['reduced', 'reduced', 'complete']))
        o['cutoff'] = draw(st.sampled_from([None, None, 1e-10]))
        o['pos_diag'] = draw(st.booleans())
        o['qtotal_Q'] = draw(st.sampled_from(['none', 'a', 'rand']))
        o['inner_qconj'] = draw(st.sampled_from([1, -1]))
        o['inner_labels'] = draw(st.sampled_from([[None, None], ['vR', 'vL']]))
        o['qseed'] = draw(st.integers(0, 100))
    elif fn == 'eigh':
        o['UPLO'] = draw(st.sampled_from(['L', 'U']))
        o['sort'] = draw(st.sampled_from([None, '>', '<', 'm>', 'm<']))
        o['vals_only'] = draw(st.booleans())
    elif fn == 'eig':
        o['sort'] = draw(st.sampled_from([None, '>', '<', 'm>', 'm<']))
        o['vals_only'] = draw(st.booleans())
    elif fn == 'pinv':
        o['cutoff'] = draw(st.sampled_from([1e-15, 1e-12, 1e-8]))
    elif fn == 'polar':
        o['left'] = draw(st.booleans())
    elif fn == 'speigs':
        o['k'] = draw(st.integers(1, 4))
        o['which'] = draw(st.sampled_from(['LM', 'LR', 'SR']))
        o['ret_v'] = draw(st.booleans())
        o['sector'] = draw(st.integers(0, 10))
    return {'fn': fn, 'm': m, 'o': o}


def run_case(spec):
    try:
        return _run_case(spec)
    except Violation as v:
        o = spec['o']
        v.tags.setdefault('fn', spec['fn'])
        if spec['fn'] == 'svd':
            v.tags['full_matrices'] = bool(o['full_matrices'] and o['compute_uv'])
        if spec['fn'] in ('qr', 'lq'):
            v.tags['mode'] = o['mode'] if o['cutoff'] is None else 'reduced'
            v.tags['pos_diag'] = o['pos_diag']
        raise Violation(v.clause, v.msg, **v.tags)


def _run_case(spec):
    from tenpy.linalg import np_conserved as npc
    fn = spec['fn']
    o = spec['o']
    a, dense, info = build_matrix(spec['m'])
    chinfo = a.chinfo
    mod = [int(x) for x in chinfo.mod]
    M, N = dense.shape
    scale = max(1.0, float(np.linalg.norm(dense)))
    tol = TOL * scale
    a0 = a.copy(deep=True)
    a0_legs = list(a.legs)
    hard = bool(info.get('rank1')) or info['stored_blocks'] < info['compatible_blocks'] or np.any(a.qtotal != 0) or spec['m']['fill'].get('zero', 0) > 0
    classes = ['fn:' + fn, 'kind:' + spec['m']['kind']]
    nondefault = False

    def unchanged():
        require(np.array_equal(a.to_ndarray(), a0.to_ndarray()) and a.get_leg_labels() == a0.get_leg_labels() and np.array_equal(a.qtotal, a0.qtotal)
                and all(x is y for x, y in zip(a.legs, a0_legs)), 'input-mutated', fn, fn=fn)

    with warnings.catch_warnings():
        warnings.simplefilter('ignore')
        if fn == 'svd':
            if info['stored_blocks'] == 0 or not np.any(dense):
                raise Skip()
            rng = np.random.default_rng(o['qseed'])
            rq = chinfo.make_valid(rng.integers(-2, 3, size=len(mod)))
            mode = o['qtotal_LR']
            qL = qR = None
            if mode == 'qn':
                qL = a.qtotal.copy()
            elif mode == 'nq':
                qR = a.qtotal.copy()
            elif mode == 'rn':
                qL = rq
            elif mode == 'nr':
                qR = rq
            elif mode == 'qq':
                qL = rq
                qR = chinfo.make_valid(a.qtotal - rq)
            exp_qL, exp_qR = qL, qR
            if qL is None and qR is None:
                exp_qR = a.qtotal
            if exp_qL is None:
                exp_qL = chinfo.make_valid(a.qtotal - exp_qR)
            if exp_qR is None:
                exp_qR = chinfo.make_valid(a.qtotal - exp_qL)
            full = o['full_matrices']
            cutoff = o['cutoff']
            if full and cutoff is not None:
                cutoff = None
            if full and not o['compute_uv']:
                full = False
            sv_ref = np.linalg.svd(dense, compute_uv=False)
            if cutoff is not None and np.any(np.abs(sv_ref - cutoff) < 1e-9 * max(1, cutoff)):
                raise Skip()
            if cutoff is not None and not np.any(sv_ref > cutoff):
                raise Skip()  # documented RuntimeError('no singular values')
            nondefault = full or cutoff is not None or mode != 'nn' or o['inner_qconj'] != 1
            kw = dict(full_matrices=full, compute_uv=o['compute_uv'], cutoff=cutoff, qtotal_LR=[qL, qR], inner_labels=o['inner_labels'],
                      inner_qconj=o['inner_qconj'])
            res = npc.svd(a, **kw)
            unchanged()
            if not o['compute_uv']:
                S = res
                U = VH = None
            else:
                U, S, VH = res
            S = np.asarray(S)
            require(np.all(S >= 0) and np.all(np.isfinite(S)), 'S-negative-or-nan', str(S), fn=fn)
            if cutoff is not None:
                require(np.all(S > cutoff), 'S-below-cutoff', '', fn=fn)
                ref = np.sort(sv_ref[sv_ref > cutoff])[::-1]
                require(len(S) == len(ref) and np.allclose(np.sort(S)[::-1], ref, atol=tol), 'S-vs-numpy', '%s vs %s' % (np.sort(S)[::-1], ref), fn=fn)
            elif not full:
                # the nonzero singular values agree with numpy's (as a multiset); block-wise min(M_b, N_b) values are returned
                nz = np.sort(S[S > tol])[::-1]
                ref = np.sort(sv_ref[sv_ref > tol])[::-1]
                require(len(nz) == len(ref) and np.allclose(nz, ref, atol=tol), 'S-vs-numpy', '%s vs %s' % (nz, ref), fn=fn)
            if U is not None:
                Ud = check_factor(U, 'U', fn)
                Vd = check_factor(VH, 'VH', fn)
                require(U.get_leg_labels() == [a.get_leg_labels()[0], o['inner_labels'][0]] and VH.get_leg_labels() == [o['inner_labels'][1], a.get_leg_labels()[1]],
                        'labels', '%s %s' % (U.get_leg_labels(), VH.get_leg_labels()), fn=fn)
                require(np.array_equal(U.qtotal, exp_qL), 'qtotal-U', 'U.qtotal=%s requested %s' % (U.qtotal, exp_qL), fn=fn, opt=mode)
                require(np.array_equal(VH.qtotal, exp_qR), 'qtotal-VH', 'VH.qtotal=%s requested %s' % (VH.qtotal, exp_qR), fn=fn, opt=mode)
                require(U.legs[0] is a.legs[0] or U.legs[0] == a.legs[0], 'outer-leg', '', fn=fn)
                require(VH.legs[1] is a.legs[1] or VH.legs[1] == a.legs[1], 'outer-leg', '', fn=fn)
                if not full:
                    require(contractible(U.legs[1], VH.legs[0]), 'inner-legs-not-contractible', '', fn=fn)
                    require(VH.legs[0].qconj == o['inner_qconj'], 'inner_qconj', 'VH.legs[0].qconj=%d' % VH.legs[0].qconj, fn=fn)
                    require(Ud.shape == (M, len(S)) and Vd.shape == (len(S), N), 'factor-shapes', '', fn=fn)
                    require(isom_defect_cols(Ud) < 1e-9, 'U-not-isometry', repr(isom_defect_cols(Ud)), fn=fn)
                    require(isom_defect_cols(Vd.conj().T) < 1e-9, 'VH-not-isometry', '', fn=fn)
                    rec = (Ud * S[None, :]) @ Vd
                    if cutoff is None:
                        require(np.linalg.norm(rec - dense) <= 10 * tol, 'reconstruction', repr(np.linalg.norm(rec - dense)), fn=fn)
                    else:
                        err2 = np.linalg.norm(rec - dense) ** 2
                        disc = float(np.sum(sv_ref[sv_ref <= cutoff] ** 2))
                        require(abs(err2 - disc) <= 10 * tol * scale, 'reconstruction-cutoff', 'err^2 %r vs discarded %r' % (err2, disc), fn=fn)
                    # via npc as well
                    rec2 = npc.tensordot(U.scale_axis(S, 1), VH, axes=1)
                    require(np.linalg.norm(rec2.to_ndarray() - rec) <= 10 * tol, 'reconstruction-npc', '', fn=fn)
                else:
                    require(Ud.shape == (M, M) and Vd.shape == (N, N), 'factor-shapes-full', '%s %s' % (Ud.shape, Vd.shape), fn=fn, opt='full_matrices')
                    require(isom_defect_cols(Ud) < 1e-9 and isom_defect_cols(Ud.conj().T) < 1e-9, 'U-not-unitary', repr(isom_defect_cols(Ud)), fn=fn, opt='full_matrices')
                    require(isom_defect_cols(Vd) < 1e-9 and isom_defect_cols(Vd.conj().T) < 1e-9, 'VH-not-unitary', repr(isom_defect_cols(Vd)), fn=fn, opt='full_matrices')
                    # U^dagger a VH^dagger is "diagonal" with the singular values as entries (in some arrangement)
                    core = Ud.conj().T @ dense @ Vd.conj().T
                    nzc = np.sort(np.abs(core[np.abs(core) > tol]))[::-1]
                    ref = np.sort(sv_ref[sv_ref > tol])[::-1]
                    require(len(nzc) == len(ref) and np.allclose(nzc, ref, atol=10 * tol), 'full-svd-core', '%s vs %s' % (nzc, ref), fn=fn, opt='full_matrices')
                    nrow = np.sum(np.abs(core) > tol, axis=1)
                    ncol = np.sum(np.abs(core) > tol, axis=0)
                    require(nrow.max(initial=0) <= 1 and ncol.max(initial=0) <= 1, 'full-svd-core-not-diagonal', '', fn=fn, opt='full_matrices')
        elif fn in ('qr', 'lq'):
            if info['stored_blocks'] == 0:
                raise Skip()
            rng = np.random.default_rng(o['qseed'])
            qtQ = {'none': None, 'a': a.qtotal.copy(), 'rand': chinfo.make_valid(rng.integers(-2, 3, size=len(mod)))}[o['qtotal_Q']]
            exp_qQ = chinfo.make_valid(qtQ)
            nondefault = o['mode'] != 'reduced' or o['cutoff'] is not None or o['pos_diag'] or o['qtotal_Q'] != 'none' or o['inner_qconj'] != 1
            cutoff = o['cutoff']
            mode = o['mode']
            if cutoff is not None:
                mode = 'reduced'
                # stay away from the rank decision boundary: blocks are either clearly rank deficient (exact integer rank-1) or generic
                if spec['m']['fill']['kind'] == 'gauss' and info.get('rank1'):
                    pass
            if fn == 'qr':
                Q, R = npc.qr(a, mode=mode, inner_labels=o['inner_labels'], cutoff=cutoff, pos_diag_R=o['pos_diag'], qtotal_Q=qtQ, inner_qconj=o['inner_qconj'])
            else:
                R, Q = npc.lq(a, mode=mode, inner_labels=o['inner_labels'], cutoff=cutoff, pos_diag_L=o['pos_diag'], qtotal_Q=qtQ, inner_qconj=o['inner_qconj'])
            unchanged()
            Qd = check_factor(Q, 'Q', fn)
            Rd = check_factor(R, 'R', fn)
            if fn == 'lq':
                Qd_, Rd_ = Qd.T, Rd.T
                dense_ = dense.T
                Q_, R_ = Q.transpose(), R.transpose()
            else:
                Qd_, Rd_, dense_, Q_, R_ = Qd, Rd, dense, Q, R
            require(np.linalg.norm(Qd_ @ Rd_ - dense_) <= 10 * tol, 'reconstruction', repr(np.linalg.norm(Qd_ @ Rd_ - dense_)), fn=fn)
            require(isom_defect_cols(Qd_) < 1e-9, 'Q-not-isometry', repr(isom_defect_cols(Qd_)), fn=fn, pos_diag=o['pos_diag'])
            if mode == 'complete':
                require(Qd_.shape[0] == Qd_.shape[1] and isom_defect_cols(Qd_.conj().T) < 1e-9, 'Q-not-unitary', '%s' % (Qd_.shape,), fn=fn)
            require(np.array_equal(Q.qtotal, exp_qQ), 'qtotal-Q', 'Q.qtotal=%s requested %s' % (Q.qtotal, exp_qQ), fn=fn)
            require(np.array_equal(chinfo.make_valid(Q.qtotal + R.qtotal), a.qtotal), 'qtotal-sum', '', fn=fn)
            require(contractible(Q_.legs[1], R_.legs[0]), 'inner-legs-not-contractible', '', fn=fn)
            require(R_.legs[0].qconj == o['inner_qconj'], 'inner_qconj', 'R.legs[0].qconj=%d' % R_.legs[0].qconj, fn=fn)
            # labels
            if fn == 'qr':
                require(Q.get_leg_labels() == [a.get_leg_labels()[0], o['inner_labels'][0]] and R.get_leg_labels() == [o['inner_labels'][1], a.get_leg_labels()[1]],
                        'labels', '%s %s' % (Q.get_leg_labels(), R.get_leg_labels()), fn=fn)
            # per-block triangular R (blocks of the blocked form)
            _, Rb = R_.as_completely_blocked() if False else (None, R_)
            if R_.shape[0] == 0:
                classes.append('empty-inner-leg')
                return {'nontrivial': False, 'classes': classes}
            pa, Rs = R_.sort_legcharge(True, True)
            for blk, qi in zip(Rs._data, Rs._qdata):
                low = np.tril(blk, -1)
                require(np.linalg.norm(low) <= tol, 'R-not-upper-triangular', 'block %s' % (qi,), fn=fn)
                if o['pos_diag']:
                    dg = np.diag(blk)
                    require(np.all(np.abs(np.imag(dg)) <= tol) and np.all(np.real(dg) >= -tol), 'R-diagonal-not-positive', str(dg), fn=fn)
            if cutoff is not None:
                # no (nearly) linearly dependent columns kept: the number of columns of Q is the rank (if clearly separated)
                svr = np.linalg.svd(dense_, compute_uv=False)
                big = svr[svr > 1e-6 * scale]
                small = svr[(svr <= 1e-6 * scale) & (svr > 1e-13 * scale)]
                if len(small) == 0:
                    require(Qd_.shape[1] == len(big), 'qr-cutoff-rank', 'Q has %d columns, rank is %d' % (Qd_.shape[1], len(big)), fn=fn)
        elif fn in ('eigh', 'eig'):
            herm = fn == 'eigh'
            if herm:
                h = a + a.conj().transpose()
                dh = dense + dense.conj().T
            else:
                h, dh = a, dense
            nondefault = o.get('UPLO', 'L') != 'L' or o['sort'] is not None
            if herm and h.legs[0].is_blocked() and h.legs[1].is_blocked():
                # documented: only the triangle selected by UPLO is read.  Make that observable: spoil the other triangle (for blocked
                # legs no index is permuted, so the triangles of the charge blocks are the triangles of the matrix)
                other = np.triu(np.ones_like(dh, dtype=bool), 1) if o['UPLO'] == 'L' else np.tril(np.ones_like(dh, dtype=bool), -1)
                spoiled = np.where(other, 3. * dh + 0.5 * (dh != 0), dh)
                h = npc.Array.from_ndarray(spoiled, h.legs, dtype=h.dtype, qtotal=h.qtotal, labels=h.get_leg_labels())
                info_uplo = True
            else:
                info_uplo = False
            h0 = h.to_ndarray().copy()
            if o['vals_only']:
                W = npc.eigvalsh(h, UPLO=o['UPLO'], sort=o['sort']) if herm else npc.eigvals(h, sort=o['sort'])
                V = None
            else:
                W, V = npc.eigh(h, UPLO=o['UPLO'], sort=o['sort']) if herm else npc.eig(h, sort=o['sort'])
            require(np.array_equal(h.to_ndarray(), h0), 'input-mutated', fn, fn=fn)
            W = np.asarray(W)
            require(W.shape == (M,), 'W-shape', '', fn=fn)
            if herm:
                ref = np.linalg.eigvalsh(dh)
                require(np.allclose(np.sort(W.real), ref, atol=10 * tol) and np.all(np.abs(np.imag(W)) <= tol), 'eigenvalues-vs-numpy', '%s vs %s' % (np.sort(W.real), ref), fn=fn)
            else:
                ref = np.linalg.eigvals(dh)
                # multiset comparison in the complex plane (greedy matching)
                rem = list(ref)
                ok = True
                # eigenvalues of a (nearly) defective matrix move by ~ eps^(1/p) (p = size of the Jordan block <= largest charge block)
                try:
                    cond_V = np.linalg.cond(np.linalg.eig(dh)[1])
                except np.linalg.LinAlgError:
                    cond_V = np.inf
                tol_eig = 1e-6 * scale if cond_V < 1e6 else 2e-3 * scale
                for w in W:
                    j = int(np.argmin([abs(w - r) for r in rem]))
                    if abs(w - rem[j]) > tol_eig:
                        ok = False
                        break
                    rem.pop(j)
                require(ok, 'eigenvalues-vs-numpy', '%s vs %s' % (W, ref), fn=fn)
            if V is not None:
                Vd = check_factor(V, 'V', fn)
                require(V.get_leg_labels() == [h.get_leg_labels()[0], 'eig'], 'labels', str(V.get_leg_labels()), fn=fn)
                resid = np.linalg.norm(dh @ Vd - Vd * W[None, :])
                require(resid <= (1e-8 if not herm else 10 * TOL) * scale * 10, 'eigenpairs', 'residual %r' % resid, fn=fn)
                if herm:
                    require(isom_defect_cols(Vd) < 1e-9 and Vd.shape == (M, M), 'V-not-unitary', '', fn=fn)
                else:
                    require(np.allclose(np.linalg.norm(Vd, axis=0), 1., atol=1e-9), 'V-columns-not-normalized', '', fn=fn)
                require(not np.any(V.qtotal), 'qtotal-V', '', fn=fn)
                require(V.legs[0] == h.legs[0], 'outer-leg', '', fn=fn)
                q1 = sorted(map(tuple, D.make_valid(mod, D.signed_qflat(V.legs[1])).tolist()))
                q0 = sorted(map(tuple, D.make_valid(mod, D.signed_qflat(h.legs[1])).tolist()))
                require(q1 == q0, 'eig-leg', 'charges of the eig leg are not those of the second leg of a', fn=fn)
                # ordering inside every charge block of the (blocked) eig leg
                leg = V.legs[1]
                for qi in range(leg.block_number):
                    w = W[leg.slices[qi]:leg.slices[qi + 1]]
                    s = o['sort']
                    key = {None: w.real, '<': w.real, '>': -w.real, 'm<': np.abs(w), 'm>': -np.abs(w)}[s]
                    if herm or s is not None:
                        require(np.all(np.diff(key) >= -1e-9 * scale), 'eigenvalue-order-in-block', 'sort=%r block %d: %s' % (s, qi, w), fn=fn, sort=str(s))
        elif fn == 'expm':
            nondefault = True
            E = npc.expm(a)
            unchanged()
            Ed = check_factor(E, 'expm', fn)
            ref = scipy.linalg.expm(dense)
            require(np.linalg.norm(Ed - ref) <= 1e-9 * max(1., np.linalg.norm(ref)), 'expm-vs-scipy', repr(np.linalg.norm(Ed - ref)), fn=fn)
            require(E.get_leg_labels() == a.get_leg_labels() and not np.any(E.qtotal), 'labels/qtotal', '', fn=fn)
            for l1, l0 in zip(E.legs, a.legs):
                require(l1 == l0, 'legs', '', fn=fn)
        elif fn == 'pinv':
            if info['stored_blocks'] == 0 or not np.any(dense):
                raise Skip()
            sv_ref = np.linalg.svd(dense, compute_uv=False)
            cutoff = o['cutoff']
            if np.any((sv_ref > 0) & (np.abs(np.log10(np.maximum(sv_ref, 1e-300)) - np.log10(cutoff)) < 3)):
                raise Skip()  # singular values close to the cutoff: ill-conditioned decision
            nondefault = cutoff != 1e-15
            P = npc.pinv(a, cutoff)
            unchanged()
            Pd = check_factor(P, 'pinv', fn)
            require(Pd.shape == (N, M), 'shape', '', fn=fn)
            c = max(1., np.linalg.norm(Pd)) * scale
            A = dense
            require(np.linalg.norm(A @ Pd @ A - A) <= 1e-9 * c * scale, 'moore-penrose-1', '', fn=fn)
            require(np.linalg.norm(Pd @ A @ Pd - Pd) <= 1e-9 * c * np.linalg.norm(Pd), 'moore-penrose-2', '', fn=fn)
            require(np.linalg.norm((A @ Pd).conj().T - A @ Pd) <= 1e-9 * c, 'moore-penrose-3', '', fn=fn)
            require(np.linalg.norm((Pd @ A).conj().T - Pd @ A) <= 1e-9 * c, 'moore-penrose-4', '', fn=fn)
            require(np.array_equal(P.qtotal, chinfo.make_valid(-a.qtotal)), 'qtotal-pinv', '%s vs %s' % (P.qtotal, -a.qtotal), fn=fn)
            require(contractible(P.legs[0], a.legs[1]) and contractible(P.legs[1], a.legs[0]), 'pinv-legs', '', fn=fn)
        elif fn == 'polar':
            if info['stored_blocks'] == 0 or not np.any(dense):
                raise Skip()
            sv_ref = np.linalg.svd(dense, compute_uv=False)
            if np.any((sv_ref > 0) & (sv_ref < 1e-8 * scale)) or np.any(sv_ref < 1e-12) and False:
                raise Skip()
            nondefault = o['left']
            u, p, s = npc.polar(a, left=o['left'])
            unchanged()
            ud = check_factor(u, 'u', fn)
            pd = check_factor(p, 'p', fn)
            rec = (pd @ ud) if o['left'] else (ud @ pd)
            require(np.linalg.norm(rec - dense) <= 100 * tol, 'reconstruction', 'left=%r: %r' % (o['left'], np.linalg.norm(rec - dense)), fn=fn, left=o['left'])
            require(np.linalg.norm(pd - pd.conj().T) <= 100 * tol, 'p-not-hermitian', '', fn=fn, left=o['left'])
            ev = np.linalg.eigvalsh((pd + pd.conj().T) / 2)
            require(np.all(ev >= -100 * tol), 'p-not-psd', str(ev), fn=fn, left=o['left'])
            # u is a partial isometry: u u^dagger u = u
            require(np.linalg.norm(ud @ ud.conj().T @ ud - ud) <= 100 * tol, 'u-not-partial-isometry', '', fn=fn, left=o['left'])
            s = np.asarray(s)
            nz = np.sort(s[s > 1e-9 * scale])[::-1]
            ref = np.sort(sv_ref[sv_ref > 1e-9 * scale])[::-1]
            require(len(nz) == len(ref) and np.allclose(nz, ref, atol=100 * tol), 'S-vs-numpy', '%s vs %s' % (nz, ref), fn=fn)
        elif fn == 'orthogonal_columns':
            if info['stored_blocks'] == 0:
                raise Skip()
            q, r = npc.qr(a, mode='reduced')
            qd = q.to_ndarray()
            if isom_defect_cols(qd) > 1e-9 or qd.shape[1] == 0:
                raise Skip()
            # `q` has full column rank by construction (documented assumption of orthogonal_columns)
            ortho = npc.orthogonal_columns(q, 'new' if spec['m']['fill']['seed'] % 2 else None)
            od = ortho.to_ndarray()
            K = qd.shape[1]
            require(od.shape == (M, M - K), 'shape', '%s vs (%d,%d)' % (od.shape, M, M - K), fn=fn)
            if M - K > 0:
                inv.check_array(ortho, fn)
                require(isom_defect_cols(od) < 1e-9, 'ortho-not-isometry', '', fn=fn)
                require(np.linalg.norm(qd.conj().T @ od) < 1e-9, 'ortho-not-orthogonal-to-a', repr(np.linalg.norm(qd.conj().T @ od)), fn=fn)
                require(np.linalg.norm(qd @ qd.conj().T + od @ od.conj().T - np.eye(M)) < 1e-8, 'ortho-not-complete', '', fn=fn)
                require(np.array_equal(ortho.qtotal, q.qtotal), 'qtotal', '', fn=fn)
                require(ortho.legs[0] == q.legs[0], 'outer-leg', '', fn=fn)
                exp_label = 'new' if spec['m']['fill']['seed'] % 2 else q.get_leg_labels()[1]
                require(ortho.get_leg_labels() == [q.get_leg_labels()[0], exp_label], 'labels', str(ortho.get_leg_labels()), fn=fn)
            nondefault = True
        elif fn == 'speigs':
            leg = a.legs[0]
            sectors = sorted(set(tuple(int(x) for x in r) for r in D.make_valid(mod, D.signed_qflat(leg)).tolist()))
            sec = sectors[o['sector'] % len(sectors)]
            idx = [i for i, r in enumerate(D.make_valid(mod, D.signed_qflat(leg)).tolist()) if tuple(r) == sec]
            sub = dense[np.ix_(idx, idx)]
            d = len(idx)
            k = o['k']
            kw = {'which': o['which']}
            if not o['ret_v']:
                kw['return_eigenvectors'] = False
            ev_ref = np.linalg.eigvals(sub)
            # separated spectrum only (ordering decisions are unstable otherwise)
            key = {'LM': -np.abs(ev_ref), 'LR': -ev_ref.real, 'SR': ev_ref.real}[o['which']]
            srt = np.sort(key)
            kk = min(k, d)
            if kk < d and abs(srt[kk] - srt[kk - 1]) < 1e-6 * scale:
                raise Skip()
            if np.linalg.norm(sub) < 1e-12 and d > 1:
                raise Skip()
            try:
                res = npc.speigs(a, list(sec), k, **kw)
            except Exception as e:
                if 'ARPACK' in type(e).__name__ or 'Arpack' in type(e).__name__:
                    raise Skip()
                raise
            unchanged()
            W = np.asarray(res[0] if o['ret_v'] else res)
            require(len(W) == kk, 'speigs-number', 'k=%d, sector dim %d: got %d eigenvalues (return_eigenvectors=%r)' % (k, d, len(W), o['ret_v']), fn=fn, ret_v=o['ret_v'])
            exp = ev_ref[np.argsort(key)][:kk]
            rem = list(exp)
            for w in W:
                j = int(np.argmin([abs(w - r) for r in rem]))
                require(abs(w - rem[j]) <= 1e-6 * scale, 'speigs-eigenvalues', '%s vs %s' % (W, exp), fn=fn)
                rem.pop(j)
            if o['ret_v']:
                for w, v in zip(W, res[1]):
                    vd = v.to_ndarray()
                    inv.check_array(v, fn)
                    require(np.array_equal(v.qtotal, chinfo.make_valid(np.array(sec, dtype=int))), 'speigs-qtotal', '', fn=fn)
                    require(np.linalg.norm(dense @ vd - w * vd) <= 1e-6 * scale * max(1., np.linalg.norm(vd)), 'speigs-eigenpair', '', fn=fn)
                    require(np.linalg.norm(vd) > 1e-6, 'speigs-zero-vector', '', fn=fn)
            nondefault = True
    nontrivial = info['sectors'] >= 2 and (hard or nondefault)
    return {'nontrivial': bool(nontrivial), 'classes': classes + (['hard'] if hard else []) + (['rank1'] if info.get('rank1') else [])}


SUBCHECKS = [Sub('factorizations', case_specs, run_case, quick=12000, thorough=600000)]
