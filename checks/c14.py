"""C14 - Time evolution applies exp(-iHt) with correct time and error accounting."""
import warnings

import numpy as np
import scipy.linalg
from hypothesis import strategies as st

from vf.core import Sub, Violation, require, Skip
from vf import mps as M

LEVEL = 'exploration'
RULE = ('(schedule) exhaustive: every order in {1, 2, 4, "4_opt"} x N_steps in 0..64: the Suzuki-Trotter schedule sums to exactly N_steps on '
        'even and on odd bonds and equals, after merging neighbouring steps on the same bonds, N repetitions of the single-step schedule. '
        '(evolution) generated predefined nearest-neighbour and next-nearest-neighbour models (TFI, XXZ, spin-1/2 and spin-1 chains, '
        'fermions, bosons, SpinChainNNN2; random parameters and conserve options) on 4-6 sites, product or random initial states in a '
        'random charge sector with psi.norm != 1, engines TEBD (orders 1, 2, 4, 4_opt), QR-based TEBD, one-/two-site TDVP, ExpMPOEvolution '
        '(I/II x order 1/2 x SVD/variational/zip_up) and the time-dependent variants, a random split of the total time into run() calls '
        'with changing N_steps and dt. Oracle: scipy expm(-iHT) on the dense H (from the MPO, C10): observed order on the ladder dt, dt/2, '
        'dt/4; exact charge sector; norm / energy; evolved_time; N steps at once == N single steps (no truncation); imaginary-time TEBD '
        'against exp(-tau H), imaginary steps run_evolution(N, -i dtau) of ExpMPOEvolution / TDVP against exp(-tau H) as rays. (time_dependent) a '
        'chain whose couplings are functions of the option "time" (linear, quadratic, cosine; 3-5 sites, Sz / parity / no charges), the '
        'time-dependent variants of TEBD, ExpMPOEvolution, one-/two-site TDVP, non-zero start_time, split runs: the result equals, to '
        '1e-9, the same steps performed one by one with the time-independent engine on the model at t0 + i dt (the documented product '
        'formula), model.options["time"] == evolved_time afterwards, and the coarse error size against the dense product of exponentials. (accounting) the same engines with a small chi_max and a harness wrapper around svd_theta / '
        'decompose_theta_qr_based recording every truncation: engine.trunc_err.eps equals the sum of the recorded eps. Non-trivial: '
        'the two halves of H do not commute (observed Trotter error > 1e-10) or >= 2 run() calls or a truncation happened. Distinct = '
        'distinct canonical JSON spec.')
ASSUMPTIONS = ['dense H from the MPO as validated by C10', 'MPS <-> dense conversion as validated by C07']

MODELS = {
    'TFIChain': ('tf_ising', ['J', 'g'], [{'conserve': None}, {'conserve': 'parity'}], 2),
    'XXZChain': ('xxz_chain', ['Jxx', 'Jz', 'hz'], [{'conserve': None}, {'conserve': 'Sz'}, {'conserve': 'parity'}], 2),
    'SpinChain': ('spins', ['Jx', 'Jy', 'Jz', 'hz', 'D'], [{'conserve': 'best'}, {'conserve': None}], 2),
    'SpinChain1': ('spins', ['Jx', 'Jy', 'Jz', 'hz', 'D', 'E'], [{'conserve': 'best'}], 3),
    'FermionChain': ('fermions_spinless', ['J', 'V', 'mu'], [{'conserve': 'N'}, {'conserve': 'parity'}], 2),
    'BoseHubbardChain': ('hubbard', ['t', 'U', 'V', 'mu'], [{'conserve': 'N'}, {'conserve': 'parity'}], 3),
    'SpinChainNNN2': ('spins_nnn', ['Jx', 'Jy', 'Jz', 'Jxp', 'Jyp', 'Jzp', 'hz'], [{'conserve': 'best'}, {'conserve': None}], 2),
}
NN_ENGINES = ['TEBD', 'TEBD', 'QRTEBD', 'TDTEBD']
MPO_ENGINES = ['TDVP1', 'TDVP2', 'ExpMPO', 'ExpMPO', 'TDTDVP2', 'TDExpMPO']


@st.composite
def evo_specs(draw, tier, accounting=False):
    name = draw(st.sampled_from(sorted(MODELS)))
    d = MODELS[name][3]
    L = draw(st.integers(4, 5 if d == 2 else 4))
    params = {p: draw(st.integers(-150, 150)) / 100. for p in MODELS[name][1]}
    if name == 'SpinChainNNN2':
        engine = draw(st.sampled_from(MPO_ENGINES))
    else:
        engine = draw(st.sampled_from(NN_ENGINES + MPO_ENGINES))
    nruns = draw(st.integers(1, 2))
    if accounting:
        if engine == 'TDVP1':
            engine = 'TDVP2'
    spec = {'model': name, 'L': L, 'params': params, 'conserve': draw(st.integers(0, len(MODELS[name][2]) - 1)), 'engine': engine,
            'order': draw(st.sampled_from([1, 2, 4, '4_opt'])), 'approx': draw(st.sampled_from(['I', 'II'])), 'mpo_order': draw(st.sampled_from([1, 2])),
            'compression': draw(st.sampled_from(['SVD', 'SVD', 'variational', 'zip_up'])), 'state': draw(st.sampled_from(['product', 'random'])),
            'seed': draw(st.integers(0, 2 ** 20)), 'norm': draw(st.sampled_from([1.0, 1.0, 0.5, 3.0])), 'start_time': draw(st.sampled_from([0.0, 0.0, 1.5])),
            'runs': [[draw(st.integers(1, 4)), draw(st.sampled_from([1, 1, 2]))] for _ in range(nruns)], 'chi_max': draw(st.sampled_from([2, 3, 4])),
            'imag': draw(st.booleans())}
    if accounting:
        spec.update(compression='SVD', state='random', chi_max=draw(st.sampled_from([2, 2, 3])))
    return spec


def acc_specs(tier):
    return evo_specs(tier, accounting=True)


def build_model(spec):
    import importlib
    name = spec['model']
    modname, pnames, consopts, d = MODELS[name]
    cls = 'SpinChain' if name == 'SpinChain1' else name
    if cls == 'XXZChain' and spec['engine'].startswith('TD') and spec['engine'] not in ('TDVP1', 'TDVP2'):
        cls = 'XXZChain2'  # the time-dependent engines need a model with options (CouplingMPOModel)
    mp = {'L': spec['L'], 'bc_MPS': 'finite'}
    if spec.get('eph'):
        # H = MPO + h.c. (explicit_plus_hc): an option of every CouplingMPOModel
        mp['explicit_plus_hc'] = True
        if cls == 'XXZChain':
            cls = 'XXZChain2'
    mp.update(consopts[spec['conserve']])
    mp.update(spec['params'])
    if name == 'SpinChain1':
        mp['S'] = 1.0
    if name == 'SpinChain':
        mp['S'] = 0.5
    if name == 'BoseHubbardChain':
        mp['n_max'] = 2
    mod = importlib.import_module('tenpy.models.' + modname)
    return getattr(mod, cls)(mp)


def initial_state(spec, sites):
    from tenpy.networks.mps import MPS
    rng = np.random.default_rng(spec['seed'])
    variational = spec['engine'] in ('ExpMPO', 'TDExpMPO') and spec.get('compression') == 'variational'
    # (single-site TDVP and the variational MPO application can not grow the bond dimension of a product state)
    if spec['state'] == 'product' and spec['engine'] not in ('TDVP1',) and not variational:
        idx = [int(rng.integers(0, s.dim)) for s in sites]
        psi = MPS.from_product_state(sites, idx, bc='finite', dtype=complex, permute=False, unit_cell_width=len(sites))
        vec = np.zeros([s.dim for s in sites], dtype=complex)
        vec[tuple(idx)] = 1.
    else:
        vec, q = M.random_state(sites, spec['seed'])
        psi = MPS.from_full(sites, M.to_npc_state(sites, vec, q), form='B', unit_cell_width=len(sites))
    psi.norm = spec['norm']
    return psi, vec.reshape(-1) * spec['norm']


class Recorder:
    """harness wrapper around the truncating decompositions: records the eps of every truncation performed"""

    def __init__(self):
        self.eps = []
        self.saved = []

    def wrap(self, module, name):
        import functools
        orig = getattr(module, name)
        rec = self

        @functools.wraps(orig)
        def wrapper(*a, **kw):
            res = orig(*a, **kw)
            for r in res:
                if type(r).__name__ == 'TruncationError':
                    rec.eps.append(float(r.eps))
            return res
        self.saved.append((module, name, orig))
        setattr(module, name, wrapper)

    def __enter__(self):
        from tenpy.algorithms import tebd, tdvp
        from tenpy.networks import mps, mpo
        self.wrap(tebd, 'svd_theta')
        self.wrap(tebd, 'decompose_theta_qr_based')
        self.wrap(tdvp, 'svd_theta')
        self.wrap(mps, 'svd_theta')
        self.wrap(mpo, 'svd_theta')
        return self

    def __exit__(self, *a):
        for module, name, orig in self.saved:
            setattr(module, name, orig)


def make_engine(spec, psi, model, dt, N_steps, trunc, start_time=0.0):
    from tenpy.algorithms import tebd, tdvp, mpo_evolution
    kind = spec['engine']
    tp = {'chi_max': trunc if trunc else 4096, 'svd_min': 1e-14 if not trunc else 1e-12, 'trunc_cut': None}
    opts = {'dt': dt, 'N_steps': N_steps, 'trunc_params': tp, 'start_time': start_time, 'max_trunc_err': None}
    if kind in ('TEBD', 'TDTEBD', 'QRTEBD'):
        opts['order'] = spec['order']
        if kind == 'QRTEBD':
            opts.update(cbe_expand=4.0, cbe_min_block_increase=16)
        cls = {'TEBD': tebd.TEBDEngine, 'TDTEBD': tebd.TimeDependentTEBD, 'QRTEBD': tebd.QRBasedTEBDEngine}[kind]
    elif kind in ('TDVP1', 'TDVP2', 'TDTDVP2'):
        opts['lanczos_params'] = {'N_max': 40, 'P_tol': 1e-14, 'reortho': True}
        cls = {'TDVP1': tdvp.SingleSiteTDVPEngine, 'TDVP2': tdvp.TwoSiteTDVPEngine, 'TDTDVP2': tdvp.TimeDependentTwoSiteTDVP}[kind]
    else:
        opts.update(approximation=spec['approx'], order=spec['mpo_order'], compression_method=spec['compression'])
        if spec['compression'] == 'variational':
            opts['max_sweeps'] = 6
            opts['min_sweeps'] = 2
        if spec['compression'] == 'zip_up':
            opts['m_temp'] = 4
        cls = {'ExpMPO': mpo_evolution.ExpMPOEvolution, 'TDExpMPO': mpo_evolution.TimeDependentExpMPOEvolution}[kind]
    return cls(psi, model, opts)


def doc_order(spec):
    kind = spec['engine']
    if kind in ('TEBD', 'QRTEBD'):
        return {1: 1, 2: 2, 4: 4, '4_opt': 4}[spec['order']]
    if kind == 'TDTEBD':
        return {1: 1, 2: 2, 4: 4, '4_opt': 4}[spec['order']]  # H(t) constant here: same order as TEBD
    if kind in ('ExpMPO', 'TDExpMPO'):
        return spec['mpo_order']
    return None  # TDVP: the projection error does not shrink with dt; only conservation laws and a coarse error size are asserted


def run_evolution(spec):
    with warnings.catch_warnings():
        warnings.simplefilter('ignore')
        try:
            model = build_model(spec)
        except ValueError as e:
            if "can't determine all charges" in str(e):
                raise Skip()  # H = 0
            raise
        sites = model.lat.mps_sites()
        L = len(sites)
        H = M.mpo_to_dense(model.H_MPO)
        nH = max(1e-12, np.linalg.norm(H, 2))
        if nH < 1e-6:
            raise Skip()
        kind = spec['engine']
        if kind in ('ExpMPO', 'TDExpMPO') and spec['compression'] == 'variational' and L < 3:
            raise Skip()
        tags = dict(engine=kind)
        if kind in ('TEBD', 'QRTEBD', 'TDTEBD'):
            tags['order'] = str(spec['order'])
        if kind in ('ExpMPO', 'TDExpMPO'):
            tags.update(approx=spec['approx'], mpo_order=spec['mpo_order'], compression=spec['compression'])
        psi0, v0 = initial_state(spec, sites)
        n0 = np.linalg.norm(v0)
        # charge sector of the initial state
        support = np.abs(v0) > 0
        classes = ['engine:' + kind, 'model:' + spec['model'], 'state:' + spec['state']]
        # --- (c) evolved time over a random split into run() calls, (b) conservation; no truncation
        psi = psi0.copy()
        t = spec['start_time']
        eng = None
        Ttot = 0.
        base_dt = 0.02 / max(1., nH / 4.)
        for N_steps, mult in spec['runs']:
            dt = base_dt * mult
            if eng is None:
                eng = make_engine(spec, psi, model, dt, N_steps, None, start_time=t)
            else:
                eng.options['dt'] = dt
                eng.options['N_steps'] = N_steps
            eng.run()
            t += N_steps * dt
            Ttot += N_steps * dt
            require(abs(eng.evolved_time - t) <= 1e-12 * max(1., abs(t)), 'evolved_time', 'evolved_time = %r after runs %r (start %r), expected %r' % (eng.evolved_time, spec['runs'], spec['start_time'], t), **tags)
        psi = eng.psi
        psi.test_sanity()
        res = M.mps_to_dense(psi).reshape(-1)
        exact = scipy.linalg.expm(-1j * Ttot * H) @ v0
        # sector: the evolved state has to stay in the charge sector of the initial state: H is block diagonal, so the support of
        # the exact state is a superset indicator; compare the weight outside of the sector through the site charges
        qflat = sector_labels(sites)
        q0 = set(map(tuple, qflat[support]))
        if len(q0) == 1:
            outside = ~np.all(qflat == np.array(next(iter(q0)))[None, :], axis=1)
            require(np.linalg.norm(res[outside]) == 0., 'left-charge-sector', 'weight %r outside of the sector' % np.linalg.norm(res[outside]), **tags)
        nr = np.linalg.norm(res)
        require(abs(nr - n0) <= 1e-9 * n0 * max(1, sum(r[0] for r in spec['runs'])), 'norm-not-preserved', '|psi(t)| = %r, |psi(0)| = %r' % (nr, n0), **tags)
        err_state = np.linalg.norm(res - exact) / n0
        p = doc_order(spec)
        if kind in ('TDVP1', 'TDVP2', 'TDTDVP2'):
            # tangent-space projection without truncation: norm (above) and energy are conserved exactly
            e0 = np.vdot(v0, H @ v0).real / n0 ** 2
            e1 = np.vdot(res, H @ res).real / nr ** 2
            require(abs(e1 - e0) <= 1e-7 * nH, 'energy-not-conserved', '%r -> %r' % (e0, e1), **tags)
        if p is None:
            if spec['state'] == 'random':
                # (nearly) complete tangent space: only the splitting error of the symmetric sweep remains
                require(err_state <= 50 * (base_dt * 2 * nH) ** 2 * max(1., Ttot * nH) + 1e-9, 'error-size', 'TDVP error %r for dt |H| = %r' % (err_state, base_dt * 2 * nH), **tags)
        else:
            # coarse a-priori size of the splitting error
            require(err_state <= 50 * (base_dt * 2 * nH) ** min(p, 2) * max(1., Ttot * nH) + 1e-9, 'error-size', 'error %r for dt |H| = %r, order %r' % (err_state, base_dt * 2 * nH, p), **tags)
        if len(spec['runs']) > 1:
            classes.append('split-runs')
        # --- (a) order on the ladder dt, dt/2, dt/4 and N steps at once == N single steps
        nontrivial = len(spec['runs']) > 1
        if p is not None:
            T = 0.3 / max(1., nH / 4.)
            errs = []
            for k, n in enumerate([2, 4, 8]):
                phi = psi0.copy()
                e = make_engine(spec, phi, model, T / n, n, None)
                e.run()
                r = M.mps_to_dense(e.psi).reshape(-1)
                errs.append(np.linalg.norm(r - scipy.linalg.expm(-1j * T * H) @ v0) / n0)
                if k == 0 and kind in ('TEBD', 'QRTEBD'):
                    # the same 2 steps one by one
                    phi1 = psi0.copy()
                    e1 = make_engine(spec, phi1, model, T / n, 1, None)
                    for _ in range(n):
                        e1.run()
                    r1 = M.mps_to_dense(e1.psi).reshape(-1)
                    require(np.linalg.norm(r - r1) <= 1e-9 * n0, 'merged-steps-differ', 'N_steps=2 at once vs 2 x N_steps=1: |diff| = %r' % (np.linalg.norm(r - r1) / n0), **tags)
            def err_for(n):
                phi_ = psi0.copy()
                e_ = make_engine(spec, phi_, model, T / n, n, None)
                e_.run()
                return np.linalg.norm(M.mps_to_dense(e_.psi).reshape(-1) - scipy.linalg.expm(-1j * T * H) @ v0) / n0
            if errs[2] > 1e-7:  # (well above the rounding floor of the dense comparison, observed up to 2e-9)
                order = np.log2(errs[1] / errs[2])
                if order < p - 0.5:
                    # pre-asymptotic regime (the leading error coefficient of this state is small and competes with the next order):
                    # refine twice more; the documented order holds if the local order increases towards it.  Below the noise floor the
                    # measurement is inconclusive.
                    more = [err_for(16), err_for(32)]
                    if min(more) > 1e-7:
                        o2, o3 = np.log2(errs[2] / more[0]), np.log2(more[0] / more[1])
                        require(o3 >= p - 0.5 and o3 > order, 'order', 'errors %r on dt .. dt/16: local orders %.2f, %.2f, %.2f, documented %d' % (errs + more, order, o2, o3, p), **tags)
                        classes.append('order-measured-pre-asymptotic')
                    else:
                        classes.append('order-inconclusive')
                else:
                    classes.append('order-measured')
                nontrivial = True
            elif errs[1] > 1e-7:
                order = np.log2(errs[0] / errs[1])
                require(order >= p - 0.6, 'order', 'errors %r on dt, dt/2: observed order %.2f, documented %d' % (errs[:2], order, p), **tags)
                nontrivial = True
                classes.append('order-measured')
            else:
                classes.append('commuting-or-exact')
        # --- imaginary time (TEBD): direction of exp(-tau H) psi0
        if spec['imag'] and kind == 'TEBD' and spec['order'] == 2:  # update_imag only implements order 2 (finite)
            from tenpy.algorithms import tebd
            tau = 0.05 / max(1., nH / 4.)
            errs = []
            for n in (2, 4):
                phi = psi0.copy()
                e = tebd.TEBDEngine(phi, model, {'order': spec['order'], 'trunc_params': {'chi_max': 4096, 'svd_min': 1e-14}})
                e.calc_U(spec['order'], tau * 2 / n, type_evo='imag')
                e.update_imag(n)
                r = M.mps_to_dense(e.psi, include_norm=False).reshape(-1)
                ex = scipy.linalg.expm(-2 * tau * H) @ v0
                ex = ex / np.linalg.norm(ex)
                r = r / np.linalg.norm(r)
                errs.append(np.sqrt(max(0., 1 - abs(np.vdot(ex, r)) ** 2)))
            pp = {1: 1, 2: 2, 4: 4, '4_opt': 4}[spec['order']]
            if errs[1] > 1e-6:  # sqrt(1 - overlap^2) has a rounding floor of ~ 1.5e-8
                order = np.log2(errs[0] / errs[1])
                require(order >= pp - 0.6, 'imag-order', 'errors %r, observed order %.2f, documented %d' % (errs, order, pp), **tags)
            require(errs[1] <= 50 * (tau * nH) ** 2 + 1e-9, 'imag-error-size', '%r' % errs, **tags)
            classes.append('imaginary')
        # --- imaginary steps of the generic engines: run_evolution(N, dt) with dt = -i dtau ("evolved_time: float | complex, the
        # imaginary part of t is decreasing for an imaginary time evolution"); the state is compared as a ray with exp(-tau H) psi0
        if spec['imag'] and kind in ('ExpMPO', 'TDVP1', 'TDVP2') and spec.get('compression') != 'zip_up':
            tau = 0.1 / max(1., nH / 4.)
            ex = scipy.linalg.expm(-tau * H) @ v0
            nex = np.linalg.norm(ex)
            ex = ex / nex
            errs = []
            for n in (2, 4):
                phi = psi0.copy()
                e = make_engine(spec, phi, model, tau / n, n, None)
                # (the documented and the implemented default of preserve_norm differ for complex dt: both values are set explicitly)
                e.options['preserve_norm'] = bool(n == 2 and spec['seed'] % 2)
                e.run_evolution(n, -1j * tau / n)
                if e.options['preserve_norm']:
                    require(abs(e.psi.norm - psi0.norm) <= 1e-12 * psi0.norm, 'imag-preserve_norm', 'preserve_norm=True: psi.norm %r -> %r' % (psi0.norm, e.psi.norm), **tags)
                else:
                    # the norm of the state is tracked in psi.norm: |exp(-tau H) psi0|
                    nm = np.linalg.norm(M.mps_to_dense(e.psi).reshape(-1))
                    bound = 5 * (tau / n * nH) ** (2 if p is None else min(p, 2)) * max(1., tau * nH) + 1e-7
                    if p is not None or spec['state'] == 'random':
                        require(abs(nm / nex - 1.) <= bound, 'imag-norm-not-tracked', 'preserve_norm=False: |psi| = %r (psi.norm = %r), |exp(-tau H) psi0| = %r' % (nm, e.psi.norm, nex), **tags)
                require(abs(e.evolved_time - (-1j * tau)) <= 1e-12, 'evolved_time-imag', 'evolved_time = %r after %d steps of -i*%r' % (e.evolved_time, n, tau / n), **tags)
                r = M.mps_to_dense(e.psi, include_norm=False).reshape(-1)
                if not np.all(np.isfinite(r)) or np.linalg.norm(r) == 0:
                    require(False, 'imag-state-invalid', 'state after imaginary steps is zero or not finite', **tags)
                r = r / np.linalg.norm(r)
                errs.append(np.sqrt(max(0., 1 - abs(np.vdot(ex, r)) ** 2)))
            if p is not None:
                if errs[1] > 1e-6:  # sqrt(1 - overlap^2) has a rounding floor of ~ 1.5e-8
                    order = np.log2(errs[0] / errs[1])
                    require(order >= p - 0.6, 'imag-order', 'errors %r, observed order %.2f, documented %d' % (errs, order, p), **tags)
                require(errs[1] <= 50 * (tau * nH) ** min(p, 2) + 1e-9, 'imag-error-size', '%r' % errs, **tags)
            elif spec['state'] == 'random':
                require(errs[1] <= 50 * (tau * nH) ** 2 + 1e-9, 'imag-error-size', 'TDVP %r' % errs, **tags)
            classes.append('imaginary-generic')
    return {'nontrivial': bool(nontrivial), 'classes': classes}


def sector_labels(sites):
    dims = [s.dim for s in sites]
    qn = sites[0].leg.chinfo.qnumber
    mod = [int(m) for m in sites[0].leg.chinfo.mod]
    tot = np.zeros(dims + [qn], dtype=np.int64)
    for k, s in enumerate(sites):
        q = M.site_charges(s)
        sh = [1] * len(dims) + [qn]
        sh[k] = dims[k]
        tot = tot + q.reshape(sh)
    for c, m in enumerate(mod):
        if m != 1:
            tot[..., c] %= m
    return tot.reshape(int(np.prod(dims)), qn)


def run_accounting(spec):
    with warnings.catch_warnings():
        warnings.simplefilter('ignore')
        try:
            model = build_model(spec)
        except ValueError as e:
            if "can't determine all charges" in str(e):
                raise Skip()  # H = 0
            raise
        sites = model.lat.mps_sites()
        kind = spec['engine']
        if kind == 'TDVP1':
            raise Skip()  # no truncation in single-site TDVP
        if kind in ('ExpMPO', 'TDExpMPO') and spec['compression'] != 'SVD':
            raise Skip()  # variational: no SVD truncations; zip_up: documented as approximate
        spec = dict(spec, state='random')
        psi0, v0 = initial_state(spec, sites)
        if max(psi0.chi) <= spec['chi_max']:
            raise Skip()
        tags = dict(engine=kind)
        H = M.mpo_to_dense(model.H_MPO)
        nH = max(1e-12, np.linalg.norm(H, 2))
        base_dt = 0.05 / max(1., nH / 4.)
        with Recorder() as rec:
            psi = psi0.copy()
            eng = None
            total_runs = 0
            for N_steps, mult in spec['runs']:
                dt = base_dt * mult
                if eng is None:
                    eng = make_engine(spec, psi, model, dt, N_steps, spec['chi_max'])
                else:
                    eng.options['dt'] = dt
                    eng.options['N_steps'] = N_steps
                before = float(eng.trunc_err.eps)
                n_before = len(rec.eps)
                eng.run()
                total_runs += 1
                got = float(eng.trunc_err.eps) - before
                exp = float(np.sum(rec.eps[n_before:]))
                require(abs(got - exp) <= 1e-10 * max(1e-6, exp), 'trunc_err-accounting',
                        'run() with N_steps=%d: trunc_err.eps grew by %r, the truncations performed sum to %r (ratio %.3f)' % (N_steps, got, exp, got / exp if exp else np.inf),
                        N_steps_gt_1=N_steps > 1, **tags)
            total = float(np.sum(rec.eps))
        require(max(eng.psi.chi) <= spec['chi_max'], 'chi_max', '%r' % (eng.psi.chi,), **tags)
        eng.psi.test_sanity()
    return {'nontrivial': total > 1e-14, 'classes': ['acc-engine:' + kind, 'truncated' if total > 1e-14 else 'no-truncation', 'runs=%d' % len(spec['runs'])]}


# ------------------------------------------------------------------------------------------------
# exhaustive: schedule

def enum_schedule(tier, shard, nshards, seed):
    allspecs = [{'order': o, 'N': n} for o in [1, 2, 4, '4_opt'] for n in range(0, 65)]
    return allspecs[shard::nshards]


def merged(seq, times):
    out = []
    for j, k in seq:
        if out and out[-1][1] == k:
            out[-1][0] += times[j]
        else:
            out.append([times[j], k])
    return out


def run_schedule(spec):
    from tenpy.algorithms.tebd import TEBDEngine
    order, N = spec['order'], spec['N']
    times = TEBDEngine.suzuki_trotter_time_steps(order)
    seq = TEBDEngine.suzuki_trotter_decomposition(order, N)
    for k in (0, 1):
        tot = sum(times[j] for j, kk in seq if kk == k)
        require(abs(tot - N) <= 1e-12 * max(1, N), 'schedule-time', 'order %r, N_steps %d: total time %r on %s bonds' % (order, N, tot, ['even', 'odd'][k]), order=str(order))
    single = TEBDEngine.suzuki_trotter_decomposition(order, 1)
    a = merged(seq, times)
    b = merged(list(single) * N, times)
    same = len(a) == len(b) and all(x[1] == y[1] and abs(x[0] - y[0]) <= 1e-13 for x, y in zip(a, b))
    require(same, 'schedule-not-N-single-steps', 'order %r, N_steps %d: the merged schedule differs from N repetitions of the single step' % (order, N), order=str(order))
    return {'nontrivial': N >= 1, 'classes': ['order:%s' % order]}


# ------------------------------------------------------------------------------------------------
# explicitly time-dependent Hamiltonians: documented as U(t0, t) ~ prod_i exp(-i dt H(t0 + i dt)), H kept constant during a step

_TD_MODEL = {}


def td_model_class():
    """XXZ-like chain whose couplings are functions of the option 'time' (the documented protocol of update_time_parameter)"""
    if 'cls' not in _TD_MODEL:
        from tenpy.models.model import CouplingMPOModel, NearestNeighborModel
        from tenpy.networks.site import SpinHalfSite

        class TDChain(CouplingMPOModel, NearestNeighborModel):
            default_lattice = 'Chain'
            force_default_lattice = True

            def init_sites(self, model_params):
                return SpinHalfSite(conserve=model_params.get('conserve', 'Sz', str), sort_charge=True)

            def init_terms(self, model_params):
                t = model_params.get('time', 0., 'real')
                c = [model_params.get(k, 0., 'real') for k in ('Jxx0', 'Jxx1', 'Jz0', 'Jz1', 'hz0', 'hz1', 'w')]
                Jxx = c[0] + c[1] * t
                Jz = c[2] + c[3] * np.cos(c[6] * t)
                hz = c[4] + c[5] * t * t
                for u in range(len(self.lat.unit_cell)):
                    self.add_onsite(-hz, u, 'Sz')
                for u1, u2, dx in self.lat.pairs['nearest_neighbors']:
                    self.add_coupling(Jxx * 0.5, u1, 'Sp', u2, 'Sm', dx, plus_hc=True)
                    self.add_coupling(Jz, u1, 'Sz', u2, 'Sz', dx)
        _TD_MODEL['cls'] = TDChain
    return _TD_MODEL['cls']


@st.composite
def td_specs(draw, tier):
    q = lambda lo, hi: draw(st.integers(lo, hi)) / 100.
    return {'L': draw(st.integers(3, 5)), 'conserve': draw(st.sampled_from(['Sz', 'parity', None])),
            'params': {'Jxx0': q(-150, 150), 'Jxx1': q(-800, 800), 'Jz0': q(-150, 150), 'Jz1': q(-150, 150), 'hz0': q(-150, 150), 'hz1': q(-2000, 2000),
                       'w': q(0, 3000)},
            'engine': draw(st.sampled_from(['TDTEBD', 'TDTEBD', 'TDExpMPO', 'TDTDVP2', 'TDTDVP1'])), 'order': draw(st.sampled_from([1, 2, 4, '4_opt'])),
            'approx': draw(st.sampled_from(['I', 'II'])), 'mpo_order': draw(st.sampled_from([1, 2])), 'compression': 'SVD',
            'state': draw(st.sampled_from(['product', 'random'])), 'seed': draw(st.integers(0, 2 ** 20)), 'norm': 1.0,
            'start_time': draw(st.sampled_from([0.0, 0.0, 0.7, -1.3])),
            'runs': [[draw(st.integers(1, 3)), draw(st.sampled_from([1, 1, 2]))] for _ in range(draw(st.integers(1, 2)))]}


def run_time_dependent(spec):
    try:
        return _run_time_dependent(spec)
    except ValueError as e:
        if "can't determine all charges" in str(e):
            raise Skip()  # H(t) = 0 at one of the times (as in `evolution`)
        raise


def _run_time_dependent(spec):
    with warnings.catch_warnings():
        warnings.simplefilter('ignore')
        cls = td_model_class()

        def model_at(t):
            mp = {'L': spec['L'], 'bc_MPS': 'finite', 'conserve': spec['conserve'], 'time': t}
            mp.update(spec['params'])
            return cls(mp)
        kind = spec['engine']
        static = {'TDTEBD': 'TEBD', 'TDExpMPO': 'ExpMPO', 'TDTDVP2': 'TDVP2', 'TDTDVP1': 'TDVP1'}[kind]
        tags = dict(engine=kind)
        if kind == 'TDTEBD':
            tags['order'] = str(spec['order'])
        if kind == 'TDExpMPO':
            tags.update(approx=spec['approx'], mpo_order=spec['mpo_order'])
        t0 = spec['start_time']
        model0 = model_at(t0)
        sites = model0.lat.mps_sites()
        psi0, v0 = initial_state(spec, sites)
        n0 = np.linalg.norm(v0)
        base_dt = 0.02
        # the engine under test
        psi = psi0.copy()
        eng = None
        times = []  # start times of all steps, step sizes
        t = t0
        for N_steps, mult in spec['runs']:
            dt = base_dt * mult
            if eng is None:
                eng = make_td_engine(kind, spec, psi, model0, dt, N_steps, t0)
            else:
                eng.options['dt'] = dt
                eng.options['N_steps'] = N_steps
            eng.run()
            for _ in range(N_steps):
                times.append((t, dt))
                t += dt
            require(abs(eng.evolved_time - t) <= 1e-12 * max(1., abs(t)), 'evolved_time', 'evolved_time = %r, expected %r' % (eng.evolved_time, t), **tags)
        res = M.mps_to_dense(eng.psi).reshape(-1)
        mt = eng.model.options.get('time', None)
        require(mt is not None and abs(mt - t) <= 1e-12 * max(1., abs(t)), 'model-time', "model.options['time'] = %r after the run, evolved_time %r" % (mt, t), **tags)
        # (1) documented product formula, step by step with the time-independent engine and the model at t0 + i dt
        phi = psi0.copy()
        for (ti, dti) in times:
            e = make_td_engine(static, spec, phi, model_at(ti), dti, 1, ti)
            e.run()
            phi = e.psi
        ref = M.mps_to_dense(phi).reshape(-1)
        d1 = np.linalg.norm(res - ref) / n0
        require(d1 <= 1e-9, 'td-steps-differ', 'time-dependent engine vs the same steps with H(t0 + i dt) one by one: |diff| = %r' % d1, **tags)
        # (2) dense product of exponentials: coarse size of the splitting error
        ex = v0.copy()
        nH = 0.
        for (ti, dti) in times:
            H = M.mpo_to_dense(model_at(ti).H_MPO)
            nH = max(nH, np.linalg.norm(H, 2))
            ex = scipy.linalg.expm(-1j * dti * H) @ ex
        if nH < 1e-6:
            raise Skip()
        err = np.linalg.norm(res - ex) / n0
        if kind in ('TDTEBD', 'TDExpMPO') or spec['state'] == 'random':
            require(err <= 50 * (2 * base_dt * nH) ** 2 * max(1., len(times)) + 1e-9, 'td-error-size', 'error %r vs prod_i exp(-i dt H(t_i)), dt |H| = %r' % (err, 2 * base_dt * nH), **tags)
        # is H(t) really changing?
        Hs = M.mpo_to_dense(model_at(times[0][0]).H_MPO)
        He = M.mpo_to_dense(model_at(t).H_MPO)
        changing = np.linalg.norm(Hs - He) > 1e-3 * max(1., nH)
        classes = ['engine:' + kind, 'state:' + spec['state'], 'H-changing' if changing else 'H-constant']
        if len(spec['runs']) > 1:
            classes.append('split-runs')
        if t0 != 0:
            classes.append('start_time')
    return {'nontrivial': bool(changing and len(times) >= 2), 'classes': classes}


def make_td_engine(kind, spec, psi, model, dt, N_steps, start_time):
    from tenpy.algorithms import tebd, tdvp, mpo_evolution
    tp = {'chi_max': 4096, 'svd_min': 1e-14, 'trunc_cut': None}
    opts = {'dt': dt, 'N_steps': N_steps, 'trunc_params': tp, 'start_time': start_time, 'max_trunc_err': None}
    if kind in ('TEBD', 'TDTEBD'):
        opts['order'] = spec['order']
        cls = {'TEBD': tebd.TEBDEngine, 'TDTEBD': tebd.TimeDependentTEBD}[kind]
    elif kind in ('TDVP1', 'TDVP2', 'TDTDVP1', 'TDTDVP2'):
        opts['lanczos_params'] = {'N_max': 40, 'P_tol': 1e-14, 'reortho': True}
        cls = {'TDVP1': tdvp.SingleSiteTDVPEngine, 'TDVP2': tdvp.TwoSiteTDVPEngine, 'TDTDVP1': tdvp.TimeDependentSingleSiteTDVP,
               'TDTDVP2': tdvp.TimeDependentTwoSiteTDVP}[kind]
    else:
        opts.update(approximation=spec['approx'], order=spec['mpo_order'], compression_method='SVD')
        cls = {'ExpMPO': mpo_evolution.ExpMPOEvolution, 'TDExpMPO': mpo_evolution.TimeDependentExpMPOEvolution}[kind]
    return cls(psi, model, opts)


SUBCHECKS = [
    Sub('schedule', None, run_schedule, quick=260, thorough=260, enumerate_fn=enum_schedule),
    Sub('time_dependent', td_specs, run_time_dependent, quick=200, thorough=8000),
    Sub('evolution', evo_specs, run_evolution, quick=160, thorough=12000),
    Sub('accounting', acc_specs, run_accounting, quick=260, thorough=12000),
]
