"""C10 - All representations of a model Hamiltonian are the same operator."""
import itertools
import warnings

import numpy as np
from hypothesis import strategies as st

from vf.core import Sub, Violation, require, Skip
from vf import mps as M

LEVEL = 'exploration'
RULE = ('Generated CouplingModels: lattice (Chain, Ladder, Square, Triangular, Honeycomb, a quarter of them as IrregularLattice with 1-2 sites removed; small; open / periodic / shifted bc; '
        'non-default orders; finite MPS) x site type (spins, bosons, spinless and spinful fermions, conserve options) x term '
        'program (add_onsite with int/float/complex/array strengths, add_coupling with negative / long-range / wrapping dx and '
        'plus_hc, add_multi_coupling with 3-4 operators, add_exponentially_decaying_coupling, add_local_term) x explicit_plus_hc. '
        'All representations are converted to dense matrices on the full Hilbert space (<= 2^10) and compared with R0 = independent '
        'sum of numpy-kron terms from the generated program (brute-force lattice enumeration, Jordan-Wigner reference operators): '
        'onsite/coupling term containers, to_TermList, calc_H_MPO (raw W contraction, +h.c. if flagged), ExactDiag.build_full_H_from_mpo '
        '/ _from_bonds, calc_H_bond, get_numpy_Hamiltonian / get_scipy_sparse_Hamiltonian, calc_H_MPO_from_bond, calc_H_bond_from_MPO, '
        'group_sites (spectrum), extract_segment; Hermiticity; invariance under explicit_plus_hc / sort_mpo_legs / conserve. '
        'Predefined models of tenpy.models (TFIChain, XXZChain, XXZChain2, SpinChain S=1/2 and 1, FermionChain, BoseHubbardChain, '
        'FermiHubbardChain, ClockChain, AKLTChain, tJChain, SpinChainNNN2; open and periodic chains) over parameters (default / zero / '
        'int / float / array) and conserve options against their documented Hamiltonians. Non-trivial: >= 2 term kinds, or wrap-around, or '
        'fermions, or explicit_plus_hc, or non-default order. Distinct = distinct canonical JSON spec.')
ASSUMPTIONS = ['site operators validated by C12, lattice enumeration reference from C19 (checks/c19.py: ref_couplings / ref_multi)']

LATTICES = [
    ['Chain', [2]], ['Chain', [3]], ['Chain', [4]], ['Chain', [5]], ['Ladder', [2]], ['Ladder', [3]], ['Square', [2, 2]], ['Square', [2, 3]],
    ['Triangular', [2, 2]], ['Honeycomb', [1, 2]], ['Honeycomb', [2, 1]],
]
SITES = [0, 1, 2, 4, 7, 8, 9, 10, 12, 14]  # indices into vf.mps.SITE_CFGS


@st.composite
def model_specs(draw, tier):
    lat = draw(st.sampled_from(LATTICES))
    cfg = draw(st.sampled_from(SITES))
    d = M.dim_of(M.SITE_CFGS[cfg])
    dim = 1 if lat[0] in ('Chain', 'Ladder') else 2
    Lu = {'Chain': 1, 'Ladder': 2, 'Square': 1, 'Triangular': 1, 'Honeycomb': 2}[lat[0]]
    N = int(np.prod(lat[1])) * Lu
    if d ** N > 2 ** 10:
        lat = ['Chain', [2 if d >= 4 else 3]]
        dim, Lu, N = 1, 1, lat[1][0]
    bc = [draw(st.sampled_from(['open', 'periodic']))] if dim == 1 else [draw(st.sampled_from(['open', 'periodic'])), draw(st.sampled_from(['open', 'periodic', 1, -1]))]
    if dim == 2 and isinstance(bc[1], int) and bc[0] == 'open':
        bc[0] = 'periodic'  # shifted bc with open x: known finding F42 of C19 (possible_couplings), excluded by construction here
    order = draw(st.sampled_from(['default', 'default', 'snake', 'Fstyle', 'perm']))
    nterms = draw(st.integers(1, 4))
    terms = []
    for _ in range(nterms):
        kind = draw(st.sampled_from(['onsite', 'coupling', 'coupling', 'multi', 'exp', 'local', 'direct']))
        terms.append({'kind': kind, 'a': [draw(st.integers(0, 10 ** 4)) for _ in range(6)],
                      'strength': draw(st.sampled_from(['int', 'float', 'complex', 'array', 'npint'])), 'plus_hc': draw(st.booleans())})
    return {'lat': lat, 'bc': bc, 'order': order, 'perm_seed': draw(st.integers(0, 999)), 'cfg': cfg, 'terms': terms,
            'explicit_plus_hc': draw(st.booleans()), 'reps': draw(st.integers(0, 10 ** 4)), 'irregular': draw(st.integers(0, 3)) == 0}


def build_lattice(spec, site):
    from tenpy.models import lattice
    cls = getattr(lattice, spec['lat'][0])
    order = spec['order']
    kw = dict(bc=list(spec['bc']), bc_MPS='finite', order='default' if order == 'perm' else order)
    Ls = spec['lat'][1]
    lat = cls(*Ls, site, **kw)
    if order == 'perm':
        rng = np.random.default_rng(spec['perm_seed'])
        lat.order = lat.order[rng.permutation(lat.N_sites)]
    if spec.get('irregular') and lat.N_sites >= 4:
        # the same lattice with one or two sites removed (IrregularLattice keeps the order of the remaining sites)
        rng = np.random.default_rng(spec['perm_seed'] + 1)
        k = 1 + int(rng.integers(0, 2))
        rem = lat.order[rng.permutation(lat.N_sites)[:k]]
        lat = lattice.IrregularLattice(lat, remove=[list(map(int, r)) for r in rem])
    return lat


def strength_value(kind, rng, shape=None):
    if kind == 'int':
        return int(rng.integers(1, 4))
    if kind == 'npint':
        return np.int64(rng.integers(1, 4))
    if kind == 'float':
        return float(np.round(rng.normal(), 3)) or 0.5
    if kind == 'complex':
        return complex(np.round(rng.normal(), 3), np.round(rng.normal(), 3))
    return None  # array: decided by the caller


def hermitian_name(site, name):
    a = M.op_matrix(site, name)
    return np.allclose(a, a.conj().T)


def run_model(spec):
    from tenpy.models.model import CouplingModel, MPOModel, NearestNeighborModel
    from tenpy.algorithms.exact_diag import ExactDiag, get_numpy_Hamiltonian, get_scipy_sparse_Hamiltonian
    from checks import c19
    tags = dict(eph=spec['explicit_plus_hc'])
    with warnings.catch_warnings():
        warnings.simplefilter('ignore')
        site = M.make_site(M.SITE_CFGS[spec['cfg']])
        lat = build_lattice(spec, site)
        sites = lat.mps_sites()
        N = lat.N_sites
        dims = [s.dim for s in sites]
        D = int(np.prod(dims))
        Lu = len(lat.unit_cell)
        fermionic = M.SITE_CFGS[spec['cfg']][0] in M.FERMIONIC
        bos = sorted(n for n in site.opnames if not site.op_needs_JW(n) and not n.startswith('JW') and n != 'Id')
        neutral = [n for n in bos if not np.any(site.get_op(n).qtotal)]
        ferm = M.fermionic_opnames(site)
        lat2mps = {tuple(int(v) for v in row): i for i, row in enumerate(lat.order)}

        class Mod(CouplingModel, MPOModel):
            pass

        model = CouplingModel(lat, explicit_plus_hc=spec['explicit_plus_hc'])
        H0 = np.zeros((D, D), dtype=complex)
        kinds = set()
        wraps = False
        all_nn = True
        for t in spec['terms']:
            rng = np.random.default_rng(t['a'][0])
            kind = t['kind']
            plus_hc = t['plus_hc'] or (spec['explicit_plus_hc'] and t['a'][0] % 4 != 0)  # explicit_plus_hc needs a hermitian H
            sk = t['strength']

            def add_ref(mat, s):
                nonlocal H0
                H0 = H0 + s * mat
                if plus_hc:
                    H0 = H0 + np.conj(s) * mat.conj().T
            if kind == 'onsite':
                u = t['a'][1] % Lu
                name = neutral[t['a'][2] % len(neutral)]
                if sk == 'array':
                    s = np.round(rng.normal(size=lat.Ls), 2)
                    s_arg = s.copy()
                else:
                    sv = strength_value(sk, rng)
                    s = np.full(lat.Ls, sv)
                    s_arg = sv
                s_before = np.array(s_arg, copy=True)
                try:
                    model.add_onsite(s_arg, u, name, plus_hc=plus_hc)
                except TypeError as e:
                    raise Violation('add_onsite-raises', 'strength %r (%s), explicit_plus_hc=%r: %s' % (s_arg if np.ndim(s_arg) == 0 else 'array', sk, spec['explicit_plus_hc'], str(e)[:80]),
                                    strength=sk, **tags)
                require(np.array_equal(np.asarray(s_arg), s_before), 'strength-argument-mutated', 'add_onsite changed the strength array passed by the caller', kind=kind, **tags)
                for x in itertools.product(*[range(L) for L in lat.Ls]):
                    if tuple(x) + (u,) not in lat2mps:
                        continue  # removed site of an IrregularLattice
                    i = lat2mps[tuple(x) + (u,)]
                    add_ref(M.dense_op(sites, {i: M.op_matrix(sites[i], name)}), s[tuple(x)])
            elif kind == 'coupling':
                u1, u2 = t['a'][1] % Lu, t['a'][2] % Lu
                dx = [int((t['a'][3] >> (3 * k)) % 5) - 2 for k in range(lat.dim)]
                dx = [max(-L, min(L, d_)) for d_, L in zip(dx, lat.Ls)]
                if u1 == u2 and not any(dx):
                    dx[0] = 1
                if fermionic and t['a'][4] % 2:
                    op1 = ferm[t['a'][4] % len(ferm)]
                    op2 = site.get_hc_op_name(op1) if t['a'][5] % 2 else ferm[t['a'][5] % len(ferm)]
                else:
                    op1 = bos[t['a'][4] % len(bos)]
                    op2 = site.get_hc_op_name(op1) if t['a'][5] % 3 else bos[t['a'][5] % len(bos)]
                # the total charge of the term has to vanish for an MPO with charge conservation
                q = site.get_op(op1).qtotal + site.get_op(op2).qtotal
                if np.any(site.leg.chinfo.make_valid(q)):
                    op2 = site.get_hc_op_name(op1)
                pairs = c19.ref_couplings(lat, u1, u2, np.array(dx))
                if any(i == j for i, j in pairs):
                    continue  # wrapping back onto the same site is not a two-site coupling
                sv = strength_value(sk if sk != 'array' else 'float', rng)
                s_arg = sv
                try:
                    model.add_coupling(s_arg, u1, op1, u2, op2, dx, plus_hc=plus_hc)
                except TypeError as e:
                    raise Violation('add_coupling-raises', 'strength %r (%s), explicit_plus_hc=%r: %s' % (sv, sk, spec['explicit_plus_hc'], str(e)[:80]), strength=sk, **tags)
                for i, j in pairs:
                    add_ref(M.jw_term(sites, [(op1, i), (op2, j)]), sv)
                    if abs(i - j) != 1:
                        all_nn = False
                if len(pairs) > 0 and any(abs(d_) >= 1 for d_ in dx):
                    wraps = wraps or len(pairs) > int(np.prod([L - abs(d_) for L, d_ in zip(lat.Ls, dx)]))
            elif kind == 'multi':
                nops = 3 + t['a'][1] % 2
                ops = []
                used = set()
                for k in range(nops):
                    u = (t['a'][2] >> k) % Lu
                    dxk = [int((t['a'][3] >> (2 * k + 3 * a)) % 3) - 1 for a in range(lat.dim)]
                    if k == 0:
                        dxk = [0] * lat.dim
                    if (tuple(dxk), u) in used:
                        continue
                    used.add((tuple(dxk), u))
                    ops.append([neutral[(t['a'][4] >> k) % len(neutral)], dxk, u])
                if len(ops) < 3:
                    continue
                if fermionic and t['a'][5] % 2:
                    # make two of the operators fermionic (a hopping dressed with densities)
                    f = ferm[t['a'][5] % len(ferm)]
                    ops[0][0] = f
                    ops[-1][0] = site.get_hc_op_name(f)
                rows = c19.ref_multi(lat, [(o, d_, u) for o, d_, u in ops])
                if any(len(set(r)) < len(r) for r in rows):
                    continue
                sv = strength_value(sk if sk != 'array' else 'float', rng)
                try:
                    model.add_multi_coupling(sv, [(o, d_, u) for o, d_, u in ops], plus_hc=plus_hc)
                except TypeError as e:
                    raise Violation('add_multi_coupling-raises', 'strength %r (%s): %s' % (sv, sk, str(e)[:80]), strength=sk, **tags)
                for r in rows:
                    add_ref(M.jw_term(sites, [(o[0], i) for o, i in zip(ops, r)]), sv)
                all_nn = False
            elif kind == 'exp':
                if fermionic and t['a'][1] % 2:
                    op_i = ferm[t['a'][2] % len(ferm)]
                    op_j = site.get_hc_op_name(op_i)
                else:
                    op_i = neutral[t['a'][2] % len(neutral)]
                    op_j = neutral[t['a'][3] % len(neutral)]
                lam = [0.5, 0.3, 0.7 * np.exp(0.4j)][t['a'][4] % 3] if not (t['a'][4] % 5 == 4) else None
                if lam is None:
                    lam_arg = np.round(rng.uniform(0.2, 0.8, size=N), 2)
                else:
                    lam_arg = lam
                subs = None
                if t['a'][5] % 3 == 0 and N >= 3:
                    subs = sorted(rng.permutation(N)[:max(2, N - 1)].tolist())
                sv = strength_value(sk if sk != 'array' else 'float', rng)
                try:
                    model.add_exponentially_decaying_coupling(sv, lam_arg, op_i, op_j, subsites=subs, plus_hc=plus_hc)
                except TypeError as e:
                    raise Violation('add_exponentially_decaying_coupling-raises', 'strength %r (%s): %s' % (sv, sk, str(e)[:80]), strength=sk, **tags)
                S = subs if subs is not None else list(range(N))
                for a_, i in enumerate(S):
                    for j in S[a_ + 1:]:
                        if np.ndim(lam_arg) == 0:
                            # documented: lambda^{|i-j|} with the distance counted within `subsites`
                            fac = lam_arg ** (S.index(j) - S.index(i))
                        else:
                            fac = np.prod([lam_arg[n] for n in S if i <= n < j])
                        add_ref(M.jw_term(sites, [(op_i, i), (op_j, j)]), sv * fac)
                all_nn = False
            elif kind == 'local':
                n = 1 + t['a'][1] % 3
                idx = sorted(rng.permutation(N)[:min(n, N)].tolist())
                names = [neutral[(t['a'][2] >> k) % len(neutral)] for k in range(len(idx))]
                if fermionic and len(idx) >= 2 and t['a'][3] % 2:
                    f = ferm[t['a'][3] % len(ferm)]
                    names[0], names[-1] = f, site.get_hc_op_name(f)
                order = list(rng.permutation(len(idx)))
                term = [(names[k], lat.order[idx[k]]) for k in order]
                sv = strength_value(sk if sk != 'array' else 'complex', rng)
                try:
                    model.add_local_term(sv, term, plus_hc=plus_hc)
                except TypeError as e:
                    raise Violation('add_local_term-raises', 'strength %r (%s): %s' % (sv, sk, str(e)[:80]), strength=sk, **tags)
                add_ref(M.jw_term(sites, [(names[k], idx[k]) for k in order]), sv)
                if len(idx) > 1 and (max(idx) - min(idx) != 1 or len(idx) > 2):
                    all_nn = False
            elif kind == 'direct':
                # the low-level wrappers add_onsite_term / add_coupling_term / add_multi_coupling_term (MPS indices, explicit operator strings)
                which = t['a'][1] % 3
                sv = strength_value(sk if sk != 'array' else 'complex', rng)
                names_d = neutral
                hneutral = [n_ for n_ in neutral if hermitian_name(site, n_)]
                if spec['explicit_plus_hc'] and t['a'][0] % 2 and hneutral:
                    # with explicit_plus_hc a term added without plus_hc is halved (H = MPO + h.c.): hermitian term, real strength
                    plus_hc = False
                    names_d = hneutral
                    sv = strength_value('float', rng)
                neutral_d = names_d
                if which == 0 or N < 2:
                    i = int(rng.integers(0, N))
                    name = neutral_d[t['a'][2] % len(neutral_d)]
                    model.add_onsite_term(sv, i, name, plus_hc=plus_hc)
                    add_ref(M.dense_op(sites, {i: M.op_matrix(sites[i], name)}), sv)
                elif which == 1 or N < 3:
                    i, j = sorted(rng.permutation(N)[:2].tolist())
                    n1, n2 = neutral_d[t['a'][2] % len(neutral_d)], neutral_d[t['a'][3] % len(neutral_d)]
                    model.add_coupling_term(sv, i, j, n1, n2, 'Id', plus_hc=plus_hc)
                    add_ref(M.dense_op(sites, {i: M.op_matrix(sites[i], n1), j: M.op_matrix(sites[j], n2)}), sv)
                    if j - i != 1:
                        all_nn = False
                else:
                    ijk = sorted(rng.permutation(N)[:3].tolist())
                    nms = [neutral_d[(t['a'][2] >> k) % len(neutral_d)] for k in range(3)]
                    model.add_multi_coupling_term(sv, ijk, nms, ['Id', 'Id'], plus_hc=plus_hc)
                    add_ref(M.dense_op(sites, {i_: M.op_matrix(sites[i_], nm) for i_, nm in zip(ijk, nms)}), sv)
                    all_nn = False
            kinds.add(kind)
        if not kinds or np.linalg.norm(H0) < 1e-12:
            raise Skip()
        # the generated program is hermitian iff every non-hermitian term got plus_hc: symmetrise if needed
        herm = np.allclose(H0, H0.conj().T, atol=1e-12)
        if spec['explicit_plus_hc'] and not herm:
            raise Skip()  # explicit_plus_hc is only meaningful for hermitian Hamiltonians (documented)
        scale = max(1.0, np.linalg.norm(H0))
        tol = 1e-11 * scale

        def cmp(H, name, **extra):
            require(H.shape == H0.shape, 'shape', name, rep=name, **tags)
            err = np.linalg.norm(np.asarray(H) - H0)
            require(err <= tol, 'representation-differs', '%s: |H - H_ref| = %r (|H_ref| = %r)' % (name, err, scale), rep=name, fermionic=fermionic, **dict(tags, **extra))

        eph = spec['explicit_plus_hc']
        # R1: term containers
        ot, ct = model.all_onsite_terms(), model.all_coupling_terms()
        Hterms = M.onsite_terms_dense(sites, ot) + M.coupling_terms_dense_multi(sites, ct) + M.exp_terms_dense(sites, model.exp_decaying_terms)
        if eph:
            Hterms = Hterms + Hterms.conj().T
        cmp(Hterms, 'term-containers')
        # R2: MPO
        mpo = model.calc_H_MPO()
        require(bool(mpo.explicit_plus_hc) == bool(eph), 'mpo-flag', '', **tags)
        cmp(M.mpo_to_dense(mpo), 'calc_H_MPO')
        if herm:
            Hm = M.mpo_to_dense(mpo)
            require(np.linalg.norm(Hm - Hm.conj().T) <= tol, 'not-hermitian', 'MPO', rep='calc_H_MPO', **tags)
            require(bool(mpo.is_hermitian()) or eph, 'is_hermitian-false-negative', '', **tags)
        MPOModel.__init__(model, lat, mpo) if False else None
        mm = Mod.__new__(Mod)
        mm.__dict__.update(model.__dict__)
        MPOModel.__init__(mm, lat, mpo)
        # R3: ExactDiag from MPO (basis of the pipe)
        ed = ExactDiag(mm)
        ed.build_full_H_from_mpo()
        pipe = ed._pipe
        idx = np.array(np.unravel_index(np.arange(D), dims)).T
        pos = np.array([pipe.map_incoming_flat(list(tup)) for tup in idx])
        Hed = ed.full_H.to_ndarray()[np.ix_(pos, pos)]
        cmp(Hed, 'ExactDiag.build_full_H_from_mpo')
        # R5: exporters (site basis un-sorted: undo_sort_charge=False keeps the sites' own basis)
        which = spec['reps'] % 3
        Hn = get_numpy_Hamiltonian(mm, undo_sort_charge=False)
        cmp(Hn, 'get_numpy_Hamiltonian')
        Hs = get_scipy_sparse_Hamiltonian(mm, undo_sort_charge=False)
        cmp(np.asarray(Hs.todense()), 'get_scipy_sparse_Hamiltonian')
        perm_all = [np.asarray(s.perm) for s in sites]
        Hu = get_numpy_Hamiltonian(mm, undo_sort_charge=True)
        # undo_sort_charge: basis of conserve=None: H_None[perm][perm] = H_sorted
        flat = np.array([np.ravel_multi_index([perm_all[k][tup[k]] for k in range(N)], dims) for tup in idx])
        Hu_sorted = np.asarray(Hu)[np.ix_(flat, flat)]
        cmp(Hu_sorted, 'get_numpy_Hamiltonian(undo_sort_charge)')
        # R4/R6: nearest-neighbour representations
        if all_nn and N >= 2 and not any(k in kinds for k in ('multi', 'exp')):
            try:
                Hb = model.calc_H_bond()
            except ValueError:
                Hb = None  # documented: raises if there are non-nearest-neighbour terms
            if Hb is not None:
                nn = Mod.__new__(Mod)
                nn.__dict__.update(model.__dict__)

                class NN(CouplingModel, NearestNeighborModel):
                    pass
                nnm = NN.__new__(NN)
                nnm.__dict__.update(model.__dict__)
                NearestNeighborModel.__init__(nnm, lat, Hb)
                Hbd = np.zeros((D, D), dtype=complex)
                for i, hb in enumerate(Hb):
                    if hb is None:
                        continue
                    hbd = np.transpose(hb.to_ndarray(), [hb.get_leg_index('p0'), hb.get_leg_index('p1'), hb.get_leg_index('p0*'), hb.get_leg_index('p1*')])
                    dl, dr = dims[i - 1], dims[i]
                    hbd = hbd.reshape(dl * dr, dl * dr)
                    left = int(np.prod(dims[:i - 1]))
                    right = int(np.prod(dims[i + 1:]))
                    Hbd += np.kron(np.kron(np.eye(left), hbd), np.eye(right))
                cmp(Hbd, 'calc_H_bond')  # documented: H_bond is not affected by explicit_plus_hc
                ed2 = ExactDiag(nnm)
                ed2.build_full_H_from_bonds()
                cmp(ed2.full_H.to_ndarray()[np.ix_(pos, pos)], 'ExactDiag.build_full_H_from_bonds')
                try:
                    mpo2 = nnm.calc_H_MPO_from_bond()
                except RuntimeError as e:
                    # rounding residue of the two-site part just above the documented absolute `tol_zero`: inconclusive
                    if 'no singular values' not in str(e):
                        raise
                    mpo2 = None
                if mpo2 is not None:
                    cmp(M.mpo_to_dense(mpo2), 'calc_H_MPO_from_bond')
                Hb2 = mm.calc_H_bond_from_MPO()
                Hbd2 = np.zeros((D, D), dtype=complex)
                for i, hb in enumerate(Hb2):
                    if hb is None:
                        continue
                    hbd = np.transpose(hb.to_ndarray(), [hb.get_leg_index('p0'), hb.get_leg_index('p1'), hb.get_leg_index('p0*'), hb.get_leg_index('p1*')])
                    dl, dr = dims[i - 1], dims[i]
                    left = int(np.prod(dims[:i - 1]))
                    right = int(np.prod(dims[i + 1:]))
                    Hbd2 += np.kron(np.kron(np.eye(left), hbd.reshape(dl * dr, dl * dr)), np.eye(right))
                cmp(Hbd2, 'calc_H_bond_from_MPO')
        # representation-only transformations
        if N >= 2 and N % 2 == 0 and which == 0:
            g = mm.copy() if hasattr(mm, 'copy') else None
            if g is not None:
                g.group_sites(2)
                edg = ExactDiag(g)
                edg.build_full_H_from_mpo()
                Hg = edg.full_H.to_ndarray()
                if herm:
                    ok = np.allclose(np.linalg.eigvalsh(Hg), np.linalg.eigvalsh(H0), atol=1e-8 * scale)
                else:
                    # the basis of the grouped sites differs: compare the invariants tr(H^k) (eigenvalues of a non-normal matrix
                    # are ill-conditioned and have no canonical order)
                    ok = all(abs(np.trace(np.linalg.matrix_power(Hg, k)) - np.trace(np.linalg.matrix_power(H0, k))) <= 1e-9 * scale ** k * len(H0) for k in (1, 2, 3, 4))
                require(ok, 'group_sites-spectrum', 'spectral invariants of the grouped model differ', rep='group_sites', **tags)
        if which == 1 and N >= 3:
            # sort_mpo_legs
            mpo_s = model.calc_H_MPO()
            mpo_s.sort_legcharges()
            cmp(M.mpo_to_dense(mpo_s), 'sort_legcharges')
    nontrivial = len(kinds) >= 2 or wraps or fermionic or eph or spec['order'] != 'default'
    return {'nontrivial': bool(nontrivial), 'classes': ['kind:' + k for k in kinds] + (['fermionic'] if fermionic else []) + (['explicit_plus_hc'] if eph else []) +
            (['wraps'] if wraps else []) + (['nn'] if all_nn else []) + ['order:' + spec['order']] + (['irregular'] if type(lat).__name__ == 'IrregularLattice' else [])}


SUBCHECKS = [Sub('coupling_models', model_specs, run_model, quick=700, thorough=40000)]


# ------------------------------------------------------------------------------------------------
# infinite MPS: segments, enlarged unit cells, grouped sites

@st.composite
def infinite_specs(draw, tier):
    lat = draw(st.sampled_from([['Chain', 1], ['Chain', 2], ['Chain', 3], ['Ladder', 1], ['Ladder', 2]]))
    cfg = draw(st.sampled_from(SITES))
    nterms = draw(st.integers(1, 4))
    terms = []
    for _ in range(nterms):
        kind = draw(st.sampled_from(['onsite', 'coupling', 'coupling', 'multi', 'exp']))
        terms.append({'kind': kind, 'a': [draw(st.integers(0, 10 ** 4)) for _ in range(6)],
                      'strength': draw(st.sampled_from(['int', 'float', 'complex', 'array'])), 'plus_hc': draw(st.booleans())})
    return {'lat': lat, 'cfg': cfg, 'terms': terms, 'explicit_plus_hc': draw(st.booleans()), 'first': draw(st.integers(0, 5)),
            'ncells': draw(st.integers(1, 6)), 'transform': draw(st.sampled_from(['none', 'enlarge', 'enlarge3', 'group', 'sort', 'none']))}


def run_infinite(spec):
    from tenpy.models.model import CouplingModel, MPOModel
    from tenpy.models import lattice
    tags = dict(eph=spec['explicit_plus_hc'], transform=spec['transform'])
    with warnings.catch_warnings():
        warnings.simplefilter('ignore')
        site = M.make_site(M.SITE_CFGS[spec['cfg']])
        Lx = spec['lat'][1]
        lat = getattr(lattice, spec['lat'][0])(Lx, site, bc='periodic', bc_MPS='infinite')
        Lu = len(lat.unit_cell)
        N = lat.N_sites
        if N < 2:
            lat = lattice.Chain(2, site, bc='periodic', bc_MPS='infinite')
            Lx, N = 2, 2
        d = site.dim
        fermionic = M.SITE_CFGS[spec['cfg']][0] in M.FERMIONIC
        bos = sorted(n for n in site.opnames if not site.op_needs_JW(n) and not n.startswith('JW') and n != 'Id')
        neutral = [n for n in bos if not np.any(site.get_op(n).qtotal)]
        ferm = M.fermionic_opnames(site)
        # window
        maxsites = int(np.floor(10 * np.log(2) / np.log(d) + 1e-9))
        nwin = max(Lu, min(spec['ncells'] * Lu, (maxsites // Lu) * Lu))
        first = spec['first'] % N if spec['transform'] in ('none', 'sort') else 0
        if nwin < 2:
            nwin = 2
        last = first + nwin - 1
        wsites = [site] * nwin
        D = d ** nwin
        H0 = np.zeros((D, D), dtype=complex)
        model = CouplingModel(lat, explicit_plus_hc=spec['explicit_plus_hc'])
        eph = spec['explicit_plus_hc']
        kinds = set()
        xs = range(-12, 12 + (last // Lu) + 2)

        def inside(idx):
            return all(first <= i <= last for i in idx)
        for t in spec['terms']:
            rng = np.random.default_rng(t['a'][0])
            kind, sk = t['kind'], t['strength']
            plus_hc = t['plus_hc'] or (eph and t['a'][0] % 4 != 0)

            def add_ref(mat, s):
                nonlocal H0
                H0 = H0 + s * mat
                if plus_hc:
                    H0 = H0 + np.conj(s) * mat.conj().T
            if kind == 'onsite':
                u = t['a'][1] % Lu
                name = neutral[t['a'][2] % len(neutral)]
                if sk == 'array':
                    s = np.round(rng.normal(size=lat.Ls), 2)
                    s_arg = s.copy()
                else:
                    s_arg = strength_value(sk, rng)
                    s = np.full(lat.Ls, s_arg)
                model.add_onsite(s_arg, u, name, plus_hc=plus_hc)
                for x in xs:
                    i = x * Lu + u
                    if inside([i]):
                        add_ref(M.dense_op(wsites, {i - first: M.op_matrix(site, name)}), s[x % Lx])
            elif kind == 'coupling':
                u1, u2 = t['a'][1] % Lu, t['a'][2] % Lu
                dx = int(t['a'][3] % 7) - 3
                if u1 == u2 and dx == 0:
                    dx = 1
                if fermionic and t['a'][4] % 2:
                    op1 = ferm[t['a'][4] % len(ferm)]
                    op2 = site.get_hc_op_name(op1) if t['a'][5] % 2 else ferm[t['a'][5] % len(ferm)]
                else:
                    op1 = bos[t['a'][4] % len(bos)]
                    op2 = site.get_hc_op_name(op1) if t['a'][5] % 3 else bos[t['a'][5] % len(bos)]
                q = site.get_op(op1).qtotal + site.get_op(op2).qtotal
                if np.any(site.leg.chinfo.make_valid(q)):
                    op2 = site.get_hc_op_name(op1)
                sv = strength_value(sk if sk != 'array' else 'float', rng)
                model.add_coupling(sv, u1, op1, u2, op2, [dx], plus_hc=plus_hc)
                for x in xs:
                    i, j = x * Lu + u1, (x + dx) * Lu + u2
                    if inside([i, j]):
                        add_ref(M.jw_term(wsites, [(op1, i - first), (op2, j - first)]), sv)
            elif kind == 'multi':
                nops = 3 + t['a'][1] % 2
                ops, used = [], set()
                for k in range(nops):
                    u = (t['a'][2] >> k) % Lu
                    dxk = 0 if k == 0 else int((t['a'][3] >> (2 * k)) % 4) - 1
                    if (dxk, u) in used:
                        continue
                    used.add((dxk, u))
                    ops.append([neutral[(t['a'][4] >> k) % len(neutral)], dxk, u])
                if len(ops) < 3:
                    continue
                if fermionic and t['a'][5] % 2:
                    f = ferm[t['a'][5] % len(ferm)]
                    ops[0][0] = f
                    ops[-1][0] = site.get_hc_op_name(f)
                sv = strength_value(sk if sk != 'array' else 'float', rng)
                model.add_multi_coupling(sv, [(o, [dx_], u) for o, dx_, u in ops], plus_hc=plus_hc)
                for x in xs:
                    idx = [(x + dx_) * Lu + u for o, dx_, u in ops]
                    if inside(idx):
                        add_ref(M.jw_term(wsites, [(o[0], i - first) for o, i in zip(ops, idx)]), sv)
            elif kind == 'exp':
                if fermionic and t['a'][1] % 2:
                    op_i = ferm[t['a'][2] % len(ferm)]
                    op_j = site.get_hc_op_name(op_i)
                else:
                    op_i = neutral[t['a'][2] % len(neutral)]
                    op_j = neutral[t['a'][3] % len(neutral)]
                lam = [0.5, 0.3, 0.7 * np.exp(0.4j)][t['a'][4] % 3]
                subs = None
                if t['a'][5] % 3 == 0 and N >= 2:
                    subs = sorted(rng.permutation(N)[:max(1, N - 1)].tolist())
                sv = strength_value(sk if sk != 'array' else 'float', rng)
                model.add_exponentially_decaying_coupling(sv, lam, op_i, op_j, subsites=subs, plus_hc=plus_hc)
                S = subs if subs is not None else list(range(N))
                pos = sorted(s_ + N * k for k in range(-3, last // N + 3) for s_ in S)
                pos = [p for p in pos if first <= p <= last]
                for a_, i in enumerate(pos):
                    for b_, j in enumerate(pos[a_ + 1:]):
                        add_ref(M.jw_term(wsites, [(op_i, i - first), (op_j, j - first)]), sv * lam ** (b_ + 1))
            kinds.add(kind)
        if not kinds:
            raise Skip()
        herm = np.allclose(H0, H0.conj().T, atol=1e-12)
        if eph and not herm:
            raise Skip()
        scale = max(1.0, np.linalg.norm(H0))
        tol = 1e-11 * scale

        class Mod(CouplingModel, MPOModel):
            pass
        mpo = model.calc_H_MPO()
        mm = Mod.__new__(Mod)
        mm.__dict__.update(model.__dict__)
        MPOModel.__init__(mm, lat, mpo)
        tr = spec['transform']
        if tr in ('enlarge', 'enlarge3'):
            mm.enlarge_mps_unit_cell(2 if tr == 'enlarge' else 3)
        elif tr == 'sort':
            mm.H_MPO.sort_legcharges()
        if tr == 'group':
            if nwin % 2 or N % 2:
                raise Skip()
            mm.group_sites(2)
            seg = mm.extract_segment(0, nwin // 2 - 1)
            gs = seg.lat.mps_sites()
            Hs = M.mpo_to_dense(seg.H_MPO)
            # the basis of a GroupedSite is the one of its LegPipe: map to the kron basis of the two sites
            gpos = []
            for g in gs:
                gpos.append(np.array([g.leg.map_incoming_flat([a, b]) for a in range(d) for b in range(d)]))
            full = np.zeros(1, dtype=np.int64)
            for k, gp in enumerate(gpos):
                full = (full[:, None] * (d * d) + gp[None, :]).reshape(-1)
            Hs = Hs[np.ix_(full, full)]
        else:
            seg = mm.extract_segment(first, last)
            Hs = M.mpo_to_dense(seg.H_MPO)
        require(seg.H_MPO.bc == 'segment' and seg.H_MPO.L * (2 if tr == 'group' else 1) == nwin, 'segment-shape', '', **tags)
        require(Hs.shape == H0.shape, 'segment-shape', '%r' % (Hs.shape,), **tags)
        err = np.linalg.norm(Hs - H0)
        require(err <= tol, 'segment-differs', '|H_segment - H_ref| = %r (|H_ref| = %r), window [%d, %d]' % (err, scale, first, last), fermionic=fermionic, **tags)
    return {'nontrivial': bool(len(kinds) >= 2 or fermionic or eph or tr != 'none'),
            'classes': ['inf-kind:' + k for k in kinds] + ['transform:' + tr] + (['explicit_plus_hc'] if eph else []) + (['fermionic'] if fermionic else [])}


SUBCHECKS.append(Sub('infinite_segments', infinite_specs, run_infinite, quick=500, thorough=30000))


# ------------------------------------------------------------------------------------------------
# predefined models against their documented Hamiltonians

PREDEF = {
    # name: (module, class, site class, none-kwargs, conserve options [(param dict)], params, max L)
    'TFIChain': ('tf_ising', 'TFIChain', 'SpinHalfSite', {}, [{'conserve': None}, {'conserve': 'parity'}], ['J', 'g'], 6),
    'XXZChain': ('xxz_chain', 'XXZChain', 'SpinHalfSite', {}, [{'conserve': None}, {'conserve': 'parity'}, {'conserve': 'Sz'}], ['Jxx', 'Jz', 'hz'], 6),
    'XXZChain2': ('xxz_chain', 'XXZChain2', 'SpinHalfSite', {}, [{'conserve': None}, {'conserve': 'parity'}, {'conserve': 'Sz'}], ['Jxx', 'Jz', 'hz'], 6),
    'SpinChain': ('spins', 'SpinChain', 'SpinSite', {'S': 0.5}, [{'conserve': None}, {'conserve': 'parity'}, {'conserve': 'Sz'}, {'conserve': 'best'}],
                  ['Jx', 'Jy', 'Jz', 'hx', 'hy', 'hz', 'muJ', 'D', 'E'], 6),
    'SpinChain1': ('spins', 'SpinChain', 'SpinSite', {'S': 1.0}, [{'conserve': None}, {'conserve': 'parity'}, {'conserve': 'Sz'}, {'conserve': 'best'}],
                   ['Jx', 'Jy', 'Jz', 'hx', 'hy', 'hz', 'muJ', 'D', 'E'], 4),
    'FermionChain': ('fermions_spinless', 'FermionChain', 'FermionSite', {}, [{'conserve': None}, {'conserve': 'parity'}, {'conserve': 'N'}], ['J', 'V', 'mu'], 6),
    'BoseHubbardChain': ('hubbard', 'BoseHubbardChain', 'BosonSite', {'Nmax': 2}, [{'conserve': None}, {'conserve': 'parity'}, {'conserve': 'N'}], ['t', 'U', 'V', 'mu'], 4),
    'FermiHubbardChain': ('hubbard', 'FermiHubbardChain', 'SpinHalfFermionSite', {},
                          [{'cons_N': None, 'cons_Sz': None}, {'cons_N': 'N', 'cons_Sz': 'Sz'}, {'cons_N': 'parity', 'cons_Sz': None}, {'cons_N': 'N', 'cons_Sz': 'parity'}],
                          ['t', 'U', 'V', 'mu'], 4),
    'ClockChain': ('clock', 'ClockChain', 'ClockSite', {'q': 3}, [{'conserve': None}, {'conserve': 'Z'}], ['J', 'g'], 4),
    'AKLTChain': ('aklt', 'AKLTChain', 'SpinSite', {'S': 1.0}, [{'conserve': None}, {'conserve': 'parity'}, {'conserve': 'Sz'}, {'conserve': 'best'}], ['J'], 4),
    'tJChain': ('tj_model', 'tJChain', 'SpinHalfHoleSite', {},
                [{'cons_N': None, 'cons_Sz': None}, {'cons_N': 'N', 'cons_Sz': 'Sz'}, {'cons_N': 'parity', 'cons_Sz': None}, {'cons_N': 'N', 'cons_Sz': 'parity'}], ['t', 'J'], 4),
    'SpinChainNNN2': ('spins_nnn', 'SpinChainNNN2', 'SpinSite', {'S': 0.5}, [{'conserve': None}, {'conserve': 'parity'}, {'conserve': 'Sz'}, {'conserve': 'best'}],
                      ['Jx', 'Jy', 'Jz', 'Jxp', 'Jyp', 'Jzp', 'hx', 'hy', 'hz'], 6),
}
NNN_PARAMS = {'Jxp', 'Jyp', 'Jzp'}
NO_BC_X = ('XXZChain', 'AKLTChain')
OPEN_ONLY = ('XXZChain', 'XXZChain2', 'AKLTChain', 'SpinChainNNN2')


@st.composite
def predef_specs(draw, tier):
    name = draw(st.sampled_from(sorted(PREDEF)))
    ent = PREDEF[name]
    L = draw(st.integers(2, ent[6]))
    params = {}
    for p in ent[5]:
        k = draw(st.sampled_from(['default', 'zero', 'int', 'float', 'float', 'array']))
        if k == 'default':
            continue
        params[p] = {'zero': 0, 'int': draw(st.integers(-2, 3)), 'float': draw(st.integers(-200, 200)) / 100.,
                     'array': ['array', draw(st.integers(0, 9999))]}[k]
    return {'model': name, 'L': L, 'params': params, 'conserve': draw(st.integers(0, len(ent[4]) - 1)),
            'bc_x': draw(st.sampled_from(['open', 'open', 'periodic'])), 'explicit_plus_hc': draw(st.booleans()),
            'sort_mpo_legs': draw(st.booleans()), 'sort_charge': draw(st.sampled_from([None, True, False]))}


def documented_H(name, L, P, bonds, sites):
    """Sum of the documented Hamiltonian; P[p] -> callable(index) for site (onsite) or bond index."""
    D = int(np.prod([s.dim for s in sites]))
    H = np.zeros((D, D), dtype=complex)

    def T(*ops):
        return M.jw_term(sites, list(ops))
    if name == 'TFIChain':
        for b, (i, j) in enumerate(bonds):
            H -= P['J'](b) * T(('Sigmax', i), ('Sigmax', j))
        for i in range(L):
            H -= P['g'](i) * T(('Sigmaz', i))
    elif name in ('XXZChain', 'XXZChain2'):
        for b, (i, j) in enumerate(bonds):
            H += P['Jxx'](b) / 2. * (T(('Sp', i), ('Sm', j)) + T(('Sm', i), ('Sp', j))) + P['Jz'](b) * T(('Sz', i), ('Sz', j))
        for i in range(L):
            H -= P['hz'](i) * T(('Sz', i))
    elif name in ('SpinChain', 'SpinChain1'):
        for b, (i, j) in enumerate(bonds):
            H += P['Jx'](b) * T(('Sx', i), ('Sx', j)) + P['Jy'](b) * T(('Sy', i), ('Sy', j)) + P['Jz'](b) * T(('Sz', i), ('Sz', j))
            H += P['muJ'](b) * 0.5j * (T(('Sm', i), ('Sp', j)) - T(('Sp', i), ('Sm', j)))
        for i in range(L):
            H -= P['hx'](i) * T(('Sx', i)) + P['hy'](i) * T(('Sy', i)) + P['hz'](i) * T(('Sz', i))
            H += P['D'](i) * T(('Sz', i), ('Sz', i)) + P['E'](i) * (T(('Sx', i), ('Sx', i)) - T(('Sy', i), ('Sy', i)))
    elif name == 'FermionChain':
        for b, (i, j) in enumerate(bonds):
            H += -P['J'](b) * (T(('Cd', i), ('C', j)) + T(('Cd', j), ('C', i))) + P['V'](b) * T(('N', i), ('N', j))
        for i in range(L):
            H -= P['mu'](i) * T(('N', i))
    elif name == 'BoseHubbardChain':
        for b, (i, j) in enumerate(bonds):
            H += -P['t'](b) * (T(('Bd', i), ('B', j)) + T(('Bd', j), ('B', i))) + P['V'](b) * T(('N', i), ('N', j))
        for i in range(L):
            H += P['U'](i) / 2. * (T(('N', i), ('N', i)) - T(('N', i))) - P['mu'](i) * T(('N', i))
    elif name == 'FermiHubbardChain':
        for b, (i, j) in enumerate(bonds):
            for s_ in 'ud':
                H += -P['t'](b) * (T(('Cd' + s_, i), ('C' + s_, j)) + T(('Cd' + s_, j), ('C' + s_, i)))
            H += P['V'](b) * T(('Ntot', i), ('Ntot', j))
        for i in range(L):
            H += P['U'](i) * T(('Nu', i), ('Nd', i)) - P['mu'](i) * T(('Ntot', i))
    elif name == 'AKLTChain':
        for b, (i, j) in enumerate(bonds):
            SS = T(('Sx', i), ('Sx', j)) + T(('Sy', i), ('Sy', j)) + T(('Sz', i), ('Sz', j))
            H += P['J'](b) * (SS + SS @ SS / 3.)
    elif name == 'tJChain':
        for b, (i, j) in enumerate(bonds):
            for s_ in 'ud':
                H += -P['t'](b) * (T(('Cd' + s_, i), ('C' + s_, j)) + T(('Cd' + s_, j), ('C' + s_, i)))
            SS = 0.5 * (T(('Sp', i), ('Sm', j)) + T(('Sm', i), ('Sp', j))) + T(('Sz', i), ('Sz', j))
            H += P['J'](b) * (SS - 0.25 * T(('Ntot', i), ('Ntot', j)))
    elif name == 'SpinChainNNN2':
        for b, (i, j) in enumerate(bonds):
            H += P['Jx'](b) * T(('Sx', i), ('Sx', j)) + P['Jy'](b) * T(('Sy', i), ('Sy', j)) + P['Jz'](b) * T(('Sz', i), ('Sz', j))
        for b in range(L - 2):  # (open chain in the default order)
            i, j = b, b + 2
            H += P['Jxp'](b) * T(('Sx', i), ('Sx', j)) + P['Jyp'](b) * T(('Sy', i), ('Sy', j)) + P['Jzp'](b) * T(('Sz', i), ('Sz', j))
        for i in range(L):
            H -= P['hx'](i) * T(('Sx', i)) + P['hy'](i) * T(('Sy', i)) + P['hz'](i) * T(('Sz', i))
    elif name == 'ClockChain':
        for b, (i, j) in enumerate(bonds):
            t = T(('X', i), ('Xhc', j))
            H -= P['J'](b) * (t + t.conj().T)
        for i in range(L):
            t = T(('Z', i))
            H -= P['g'](i) * (t + t.conj().T)
    else:
        raise ValueError(name)
    return H


DEFAULTS = {'TFIChain': {'J': 1., 'g': 1.}, 'XXZChain': {'Jxx': 1., 'Jz': 1., 'hz': 0.}, 'XXZChain2': {'Jxx': 1., 'Jz': 1., 'hz': 0.},
            'SpinChain': {'Jx': 1., 'Jy': 1., 'Jz': 1., 'hx': 0., 'hy': 0., 'hz': 0., 'muJ': 0., 'D': 0., 'E': 0.},
            'FermionChain': {'J': 1., 'V': 1., 'mu': 0.}, 'BoseHubbardChain': {'t': 1., 'U': 0., 'V': 0., 'mu': 0.},
            'FermiHubbardChain': {'t': 1., 'U': 0., 'V': 0., 'mu': 0.}, 'ClockChain': {'J': 1., 'g': 1.}}
DEFAULTS['SpinChain1'] = DEFAULTS['SpinChain']
DEFAULTS.update({'AKLTChain': {'J': 1.}, 'tJChain': {'t': 1., 'J': 1.},
                 'SpinChainNNN2': {'Jx': 1., 'Jy': 1., 'Jz': 1., 'Jxp': 1., 'Jyp': 1., 'Jzp': 1., 'hx': 0., 'hy': 0., 'hz': 0.}})
ONSITE_PARAMS = {'g', 'hz', 'hx', 'hy', 'D', 'E', 'mu', 'U'}


def run_predef(spec):
    import importlib
    from tenpy.networks import site as S
    from tenpy.algorithms.exact_diag import ExactDiag, get_numpy_Hamiltonian, get_scipy_sparse_Hamiltonian
    name = spec['model']
    modname, clsname, sitecls, skw, consopts, pnames, _ = PREDEF[name]
    L = spec['L']
    # periodic chains with a finite MPS have couplings beyond nearest MPS neighbours: documented to need the general
    # `...Model` class instead of the NearestNeighborModel `...Chain`
    periodic = spec['bc_x'] == 'periodic' and name not in OPEN_ONLY and L > 2
    if periodic:
        clsname = clsname.replace('Chain', 'Model')
    cons = dict(consopts[spec['conserve']])
    tags = dict(model=name, eph=spec['explicit_plus_hc'])
    nb = L if periodic else L - 1
    mp = {'L': L, 'bc_MPS': 'finite', 'explicit_plus_hc': spec['explicit_plus_hc'], 'sort_mpo_legs': spec['sort_mpo_legs']}
    if name not in NO_BC_X:
        mp['bc_x'] = 'periodic' if periodic else 'open'
    if name == 'AKLTChain':
        mp = {'L': L, 'bc_MPS': 'finite'}  # (not a CouplingMPOModel: only L, J, conserve, sort_charge, bc_MPS are options)
    mp.update(cons)
    for k, v in skw.items():
        mp['n_max' if (k == 'Nmax') else k] = v
    if name == 'AKLTChain':
        skw = {}  # (S = 1 is fixed by the model)
    if spec['sort_charge'] is not None and sitecls in ('SpinHalfSite', 'SpinSite', 'ClockSite') and name not in ('FermiHubbardChain',):
        mp['sort_charge'] = spec['sort_charge']
    P = {}
    for p in pnames:
        v = spec['params'].get(p, None)
        n = L if p in ONSITE_PARAMS else (max(L - 2, 0) if p in NNN_PARAMS else nb)
        if v is None:
            arr = np.full(n, DEFAULTS[name][p])
        elif isinstance(v, list):
            arr = np.round(np.random.default_rng(v[1]).normal(size=n), 2)
            mp[p] = arr.copy()
        else:
            arr = np.full(n, v)
            mp[p] = v
        P[p] = (lambda a: (lambda i: a[i]))(arr)
    # conserve options have to be compatible with the parameters (documented: checked / user responsibility)
    nz = lambda p: p in P and any(abs(P[p](i)) > 0 for i in range(L if p in ONSITE_PARAMS else (max(L - 2, 0) if p in NNN_PARAMS else nb)))
    if name in ('SpinChain', 'SpinChain1', 'SpinChainNNN2'):
        c = cons.get('conserve')
        breaks_sz = nz('hx') or nz('hy') or nz('E') or any(abs(P['Jx'](b) - P['Jy'](b)) > 0 for b in range(nb))
        if name == 'SpinChainNNN2':
            breaks_sz = breaks_sz or any(abs(P['Jxp'](b) - P['Jyp'](b)) > 0 for b in range(max(L - 2, 0)))
        breaks_par = nz('hx') or nz('hy')
        if (c == 'Sz' and breaks_sz) or (c == 'parity' and breaks_par):
            raise Skip()
    with warnings.catch_warnings():
        warnings.simplefilter('ignore')
        mod = importlib.import_module('tenpy.models.' + modname)
        if not any(nz(p) for p in pnames):
            raise Skip()  # H = 0
        if periodic:
            mp['lattice'] = 'Chain'
        model = getattr(mod, clsname)(dict(mp))
        sites = model.lat.mps_sites()
        skw_ref = dict(PREDEF[name][3])
        nsite = getattr(S, sitecls)(**dict(skw_ref, **({'cons_N': None, 'cons_Sz': None} if sitecls in ('SpinHalfFermionSite', 'SpinHalfHoleSite') else {'conserve': None})))
        nsites = [nsite] * L
        bonds = [(i, (i + 1) % L) for i in range(nb)]
        # Chain with periodic bc uses the 'folded' order by default: the documented H only refers to lattice neighbours
        lat_of_mps = [int(model.lat.order[i][0]) for i in range(L)]
        mps_of_lat = {x: i for i, x in enumerate(lat_of_mps)}
        # reference in lattice order (site x = tensor factor x); the model in MPS order: permute tensor factors
        H0_lat = documented_H(name, L, P, bonds, nsites)
        d = nsite.dim
        # JW ordering: the documented fermionic H is independent of the JW ordering only up to a unitary; build directly in MPS order instead
        bonds_mps = [(mps_of_lat[i], mps_of_lat[j]) for i, j in bonds]
        P_mps = dict(P)
        for p in pnames:
            if p in ONSITE_PARAMS:
                P_mps[p] = (lambda f: (lambda i: f(lat_of_mps[i])))(P[p])
        H0 = documented_H(name, L, P_mps, bonds_mps, nsites)
        scale = max(1., np.linalg.norm(H0))
        tol = 1e-11 * scale
        D = d ** L
        # basis permutation model sites (sorted by charge) -> standard basis (conserve=None)
        perm = np.asarray(sites[0].perm)
        idx = np.array(np.unravel_index(np.arange(D), [d] * L)).T
        flat = np.array([np.ravel_multi_index([perm[a] for a in tup], [d] * L) for tup in idx])

        def cmp(H, rep, std=False):
            H = np.asarray(H)
            require(H.shape == (D, D), 'shape', rep, rep=rep, **tags)
            if not std:
                Hstd = np.zeros_like(H, dtype=complex)
                Hstd[np.ix_(flat, flat)] = H
                H = Hstd
            err = np.linalg.norm(H - H0)
            require(err <= tol, 'predefined-differs', '%s of %s: |H - H_documented| = %r (|H| = %r); conserve %r' % (rep, name, err, scale, cons), rep=rep, **tags)
        Hm = M.mpo_to_dense(model.H_MPO)
        cmp(Hm, 'H_MPO')
        require(np.linalg.norm(Hm - Hm.conj().T) <= tol, 'not-hermitian', 'H_MPO of %s' % name, rep='H_MPO', **tags)
        cmp(get_numpy_Hamiltonian(model, undo_sort_charge=True), 'get_numpy_Hamiltonian', std=True)
        if name != 'AKLTChain':  # (documented NotImplementedError for models which are not a CouplingModel)
            cmp(np.asarray(get_scipy_sparse_Hamiltonian(model, undo_sort_charge=True).todense()), 'get_scipy_sparse_Hamiltonian', std=True)
        if hasattr(model, 'H_bond') and L > 2 or (hasattr(model, 'H_bond') and not periodic):
            Hb_sum = np.zeros((D, D), dtype=complex)
            ok = True
            for i, hb in enumerate(model.H_bond):
                if hb is None:
                    continue
                if i == 0:
                    ok = False  # bond (L-1, 0) can not be represented for finite MPS
                    break
                hbd = np.transpose(hb.to_ndarray(), [hb.get_leg_index('p0'), hb.get_leg_index('p1'), hb.get_leg_index('p0*'), hb.get_leg_index('p1*')]).reshape(d * d, d * d)
                Hb_sum += np.kron(np.kron(np.eye(d ** (i - 1)), hbd), np.eye(d ** (L - i - 1)))
            if ok:
                cmp(Hb_sum, 'H_bond')
            ed = ExactDiag(model)
            ed.build_full_H_from_bonds()
            pos = np.array([ed._pipe.map_incoming_flat(list(tup)) for tup in idx])
            cmp(ed.full_H.to_ndarray()[np.ix_(pos, pos)], 'ExactDiag.build_full_H_from_bonds')
        ed = ExactDiag(model)
        ed.build_full_H_from_mpo()
        pos = np.array([ed._pipe.map_incoming_flat(list(tup)) for tup in idx])
        cmp(ed.full_H.to_ndarray()[np.ix_(pos, pos)], 'ExactDiag.build_full_H_from_mpo')
    return {'nontrivial': True, 'classes': ['model:' + name, 'conserve:%s' % sorted(cons.items()), 'bc_x:' + ('periodic' if periodic else 'open')] +
            (['explicit_plus_hc'] if spec['explicit_plus_hc'] else [])}


SUBCHECKS.append(Sub('predefined', predef_specs, run_predef, quick=400, thorough=20000))
