"""C01 - Block-sparse tensor algebra agrees with dense numpy algebra."""
from vf.core import Sub, Skip
from vf import npcprog

LEVEL = 'exploration'
RULE = ('Generated programs (1-8 ops from the public op vocabulary of np_conserved, integer arguments resolved modulo '
        'the available operands = partner construction) over tensors with 0-2 charges (U(1), Z_N), unsorted / duplicate / '
        'conjugated legs, missing and stored-zero blocks; after every op the result is compared with the numpy shadow '
        '(exactly for integer fills), labels with the documented propagation rule, qtotal and per-index leg charges. '
        'Non-trivial: some operand has a leg with >= 2 blocks and >= 2 stored blocks, and the program executed a '
        'block-matching op on it (tensordot/inner/trace/add/combine/split/getitem/setitem/concatenate/...). '
        'Distinct = distinct canonical JSON spec. Run with the compiled (cy) and pure-Python (py) kernels.')
ASSUMPTIONS = ['numpy dense algebra as reference', 'pipe fusion order re-derived from the LegPipe documentation (vf/dense.py)']


def strategy(tier):
    return npcprog.program_specs(tier)


def run(spec):
    it = npcprog.Interp(spec, check_dense=True)
    it.run()
    return {'nontrivial': it.nontrivial_ops > 0, 'classes': sorted(it.classes) + ['op:' + o for o in set(it.ops_done)]}


SUBCHECKS = [Sub('programs', strategy, run, quick=3000, thorough=120000, configs=('cy', 'py'))]
