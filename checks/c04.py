"""C04 - Compiled and pure-Python tensor kernels are observationally equivalent."""
import numpy as np
from hypothesis import strategies as st

from vf.core import Sub, Violation, require
from vf import npcprog, gen

LEVEL = 'exploration'
RULE = ('Differential testing: the same generated program spec (C01/C02 op vocabulary, float64/complex128) is interpreted in the '
        'worker (compiled kernels built from the staged .pyx) and in a persistent child process with TENPY_NO_CYTHON=1; after '
        'every step both emit a canonical record (dense values, dtype, legs incl. slices/charges/qconj/flags/pipe tables, labels, '
        'qtotal, set of stored block indices, scalars, exception class) which must agree (values: 1e-12 rel.). Also direct calls '
        'of the paired helper functions (make_valid, check_valid incl. values at/around the modulus, _find_row_differences, '
        '_map_blocks, _sliced_copy, _make_stride, LegPipe construction). Non-trivial program: as C01 (block-matching op on a '
        'multi-block tensor with >= 2 stored blocks); helpers: non-empty input with >= 2 rows/blocks. Distinct = distinct spec.')
ASSUMPTIONS = ['the cy side uses the extension rebuilt from the staged _npc_helper.pyx (never the prebuilt binary in /repo)',
               'block order inside _data/_qdata and the _qdata_sorted cache flag are not observable and not compared']


def trace_program(spec):
    """Run the program; return the per-step records or the error class (executed in both processes)."""
    it = npcprog.Interp(spec, check_dense=False, record=True)
    info = {}
    try:
        it.run()
    except Violation as v:
        info['error'] = {'kind': 'violation', 'clause': v.clause, 'tags': v.tags, 'step': it.step, 'op': it.opname}
    except Exception as e:  # harness problems propagate in the parent; here only tenpy exceptions are expected
        from vf.core import innermost_pkg_frame
        where, in_tenpy = innermost_pkg_frame(e)
        if not in_tenpy:
            raise
        info['error'] = {'kind': 'exception', 'exc': type(e).__name__, 'step': it.step, 'op': it.opname}
    info['trace'] = it.trace
    info['nontrivial'] = it.nontrivial_ops > 0
    info['classes'] = sorted(it.classes) + ['op:' + o for o in set(it.ops_done)]
    return info


def _cmp_vals(a, b, what, op):
    a = np.asarray(a, dtype=float)
    b = np.asarray(b, dtype=float)
    require(a.shape == b.shape, 'diff-shape', what, op=op)
    if a.size:
        scale = max(1.0, float(np.max(np.abs(a))))
        require(np.allclose(a, b, rtol=1e-12, atol=1e-12 * scale), 'diff-values', '%s: max diff %r' % (what, float(np.max(np.abs(a - b)))), op=op)


def compare_traces(cy, py):
    ecy, epy = cy.get('error'), py.get('error')
    for k, (sc, sp) in enumerate(zip(cy['trace'], py['trace'])):
        op = sc['op']
        require(sc['op'] == sp['op'] and sc.get('skipped') == sp.get('skipped'), 'diff-control-flow',
                'step %d: cy %s/%s vs py %s/%s' % (k, sc['op'], sc.get('skipped'), sp['op'], sp.get('skipped')), op=op)
        if sc.get('skipped'):
            continue
        require(len(sc['ents']) == len(sp['ents']), 'diff-results', 'step %d' % k, op=op)
        for rc, rp in zip(sc['ents'], sp['ents']):
            what = 'step %d (%s) %s' % (k, op, rc['name'])
            for key in ('dtype', 'shape', 'labels', 'qtotal', 'blocks'):
                if key == 'dtype' and not rc['blocks'] and not rp['blocks']:
                    continue  # dtype of a tensor without blocks is only resolved lazily (documented for *_blockwise)
                require(rc[key] == rp[key], 'diff-' + key, '%s: cy %s vs py %s' % (what, rc[key], rp[key]), op=op)
            require(rc['legs'] == rp['legs'], 'diff-legs', '%s: cy %s vs py %s' % (what, rc['legs'], rp['legs']), op=op)
            _cmp_vals(rc['re'], rp['re'], what, op)
            if rc['im'] is not None or rp['im'] is not None:
                zero = [0.0] * len(rc['re'])
                _cmp_vals(rc['im'] if rc['im'] is not None else zero, rp['im'] if rp['im'] is not None else zero, what, op)
        if sc.get('scalars') or sp.get('scalars'):
            _cmp_vals(sc.get('scalars'), sp.get('scalars'), 'step %d scalar' % k, op)
    require(len(cy['trace']) == len(py['trace']), 'diff-length', 'cy %d steps (%s), py %d steps (%s)' % (len(cy['trace']), ecy, len(py['trace']), epy),
            op=(ecy or epy or {}).get('op', '?'))
    if ecy or epy:
        require(ecy is not None and epy is not None, 'diff-error', 'cy: %s, py: %s' % (ecy, epy), op=(ecy or epy)['op'])
        kc = (ecy['kind'], ecy.get('exc'), ecy.get('clause'), ecy['step'])
        kp = (epy['kind'], epy.get('exc'), epy.get('clause'), epy['step'])
        require(kc == kp, 'diff-error-class', 'cy: %s, py: %s' % (ecy, epy), op=ecy['op'])


def run_programs(spec):
    from vf.pychild import PyChild
    cy = trace_program(spec)
    py = PyChild.get().call('checks.c04', 'trace_program', spec)
    compare_traces(cy, py)
    return {'nontrivial': cy['nontrivial'], 'classes': cy['classes']}


def strategy_programs(tier):
    return npcprog.program_specs(tier, max_ops=8)


# ---------------------------------------------------------------------------------------------------------
# direct calls of paired helpers


@st.composite
def helper_specs(draw, tier):
    fn = draw(st.sampled_from(['make_valid', 'check_valid', 'find_row_differences', 'map_blocks', 'sliced_copy', 'make_stride', 'pipe',
                               'leg_ctor']))
    mod = draw(st.lists(st.sampled_from([1, 2, 3, 4, 5]), min_size=0, max_size=3))
    spec = {'fn': fn, 'mod': mod}
    qn = len(mod)
    if fn in ('make_valid', 'check_valid', 'leg_ctor'):
        nd = draw(st.sampled_from([1, 2, 2])) if fn == 'make_valid' else 2
        nrows = draw(st.integers(1, 4))  # 0 rows: see DESIGN (empty legs are outside the sound domain of the helpers)
        # values at and around 0 and the modulus
        def val(m):
            return draw(st.sampled_from([-m - 1, -m, -1, 0, 1, m - 1, m, m + 1, 2 * m]))
        if nd == 1 and fn != 'leg_ctor':
            spec['charges'] = [val(m) for m in mod]
        else:
            spec['charges'] = [[val(m) for m in mod] for _ in range(nrows)]
        spec['none'] = draw(st.integers(0, 9)) == 0
        spec['as_list'] = draw(st.booleans())
    elif fn == 'find_row_differences':
        nrows = draw(st.integers(1, 6))
        ncols = draw(st.integers(0, 3))
        spec['rows'] = [[draw(st.integers(0, 1)) for _ in range(ncols)] for _ in range(nrows)]
        spec['ncols'] = ncols
    elif fn == 'map_blocks':
        spec['sizes'] = draw(st.lists(st.integers(0, 4), min_size=0, max_size=5))
    elif fn == 'make_stride':
        spec['shape'] = draw(st.lists(st.integers(1, 5), min_size=1, max_size=5))
        spec['cstyle'] = draw(st.booleans())
    elif fn == 'sliced_copy':
        nd = draw(st.integers(1, 4))
        dshape = [draw(st.integers(1, 4)) for _ in range(nd)]
        sshape = [draw(st.integers(1, 4)) for _ in range(nd)]
        sl = [draw(st.integers(0, min(a, b))) for a, b in zip(dshape, sshape)]
        spec.update(dshape=dshape, sshape=sshape, slice=sl,
                    dbeg=[draw(st.integers(0, a - s)) for a, s in zip(dshape, sl)],
                    sbeg=[draw(st.integers(0, b - s)) for b, s in zip(sshape, sl)],
                    dt=draw(st.sampled_from(['float64', 'complex128'])), none_beg=draw(st.integers(0, 5)) == 0)
    elif fn == 'pipe':
        n = draw(st.integers(1, 3))
        spec['legs'] = [draw(gen.leg_specs(mod, max_blocks=3, max_size=2)) for _ in range(n)]
        spec['qconj'] = draw(st.sampled_from([1, -1]))
        spec['sort'] = draw(st.booleans())
        spec['bunch'] = draw(st.booleans())
    return spec


def eval_helper(spec):
    """Executed in both processes; returns a canonical, JSON-able result or the exception class."""
    from tenpy.linalg import charges
    from tenpy.linalg.charges import ChargeInfo, LegCharge, LegPipe
    fn = spec['fn']
    chinfo = ChargeInfo(spec['mod'])
    try:
        if fn == 'make_valid':
            if spec['none']:
                r = chinfo.make_valid(None)
            else:
                c = spec['charges']
                two_d = bool(c) and isinstance(c[0], list)
                arr = np.array(c, dtype=charges.QTYPE).reshape((-1, len(spec['mod'])) if two_d else (len(spec['mod']),))
                arg = (arr.tolist() if spec['as_list'] else arr)
                before = np.array(arg, copy=True) if isinstance(arg, np.ndarray) else None
                r = chinfo.make_valid(arg)
                mutated = bool(before is not None and not np.array_equal(before, arg))
                return {'res': np.asarray(r).tolist(), 'dtype': str(np.asarray(r).dtype), 'shape': list(np.asarray(r).shape), 'mutated': mutated,
                        'is_copy': bool(r is not arg)}
            return {'res': np.asarray(r).tolist(), 'dtype': str(np.asarray(r).dtype), 'shape': list(np.asarray(r).shape)}
        if fn == 'check_valid':
            c = spec['charges']
            arr = np.array(c, dtype=charges.QTYPE).reshape((-1, len(spec['mod'])) if (c and isinstance(c[0], list)) or c == [] else (len(spec['mod']),))
            return {'res': bool(chinfo.check_valid(arr))}
        if fn == 'leg_ctor':
            c = spec['charges']
            arr = np.array(c, dtype=charges.QTYPE).reshape((-1, len(spec['mod'])))
            leg = LegCharge.from_qflat(chinfo, arr)
            return {'res': npcprog._leg_record(leg)}
        if fn == 'find_row_differences':
            q = np.array(spec['rows'], dtype=charges.QTYPE).reshape((len(spec['rows']), spec['ncols']))
            r = charges._find_row_differences(q)
            return {'res': np.asarray(r).tolist(), 'dtype': str(np.asarray(r).dtype)}
        if fn == 'map_blocks':
            r = charges._map_blocks(np.array(spec['sizes'], dtype=np.intp))
            return {'res': np.asarray(r).tolist(), 'dtype': str(np.asarray(r).dtype)}
        if fn == 'make_stride':
            r = charges._make_stride(spec['shape'], spec['cstyle'])
            return {'res': np.asarray(r).tolist(), 'dtype': str(np.asarray(r).dtype)}
        if fn == 'sliced_copy':
            rng = np.random.default_rng(0)
            dest = np.zeros(spec['dshape'], dtype=spec['dt'])
            src = (rng.integers(1, 9, size=spec['sshape'])).astype(spec['dt'])
            src0 = src.copy()
            nb = spec['none_beg'] and all(s <= d for s, d in zip(spec['slice'], spec['dshape']))
            charges._sliced_copy(dest, None if nb else np.array(spec['dbeg'], dtype=np.intp), src, None if nb else np.array(spec['sbeg'], dtype=np.intp),
                                 np.array(spec['slice'], dtype=np.intp))
            return {'res': np.real(dest).tolist(), 'src_unchanged': bool(np.array_equal(src, src0))}
        if fn == 'pipe':
            legs = [gen.build_leg(chinfo, l) for l in spec['legs']]
            p = LegPipe(legs, qconj=spec['qconj'], sort=spec['sort'], bunch=spec['bunch'])
            rec = npcprog._leg_record(p)
            rec['q_map_slices'] = [int(x) for x in p.q_map_slices]
            rec['perm'] = None if p._perm is None else [int(x) for x in p._perm]
            rec['strides'] = [int(x) for x in p._strides]
            n = p.ind_len
            idx = np.array(np.unravel_index(np.arange(n), p.subshape)).T if n else np.zeros((0, len(legs)), dtype=int)
            rec['map_incoming_flat'] = [int(x) for x in p.map_incoming_flat(idx)] if n else []
            c = p.conj()
            rec['conj'] = npcprog._leg_record(c)
            return {'res': rec}
    except Exception as e:
        from vf.core import innermost_pkg_frame
        where, in_tenpy = innermost_pkg_frame(e)
        if not in_tenpy and not isinstance(e, (ValueError, AssertionError)):
            raise
        return {'error': type(e).__name__}
    raise ValueError(fn)


def run_helpers(spec):
    from vf.pychild import PyChild
    cy = eval_helper(spec)
    py = PyChild.get().call('checks.c04', 'eval_helper', spec)
    # JSON round trip of the local result, so that both are compared in the same representation
    import json
    from vf.core import _default
    cy = json.loads(json.dumps(cy, default=_default))
    require(cy == py, 'diff-helper', 'cy %s vs py %s' % (str(cy)[:300], str(py)[:300]), fn=spec['fn'])
    if spec['fn'] == 'make_valid' and 'mutated' in cy:
        require(not cy['mutated'], 'make_valid-mutates-argument', '', fn='make_valid')
    nontriv = {'make_valid': lambda s: bool(s['mod']) and bool(s.get('charges')), 'check_valid': lambda s: bool(s['mod']) and bool(s.get('charges')),
               'leg_ctor': lambda s: len(s['charges']) >= 2, 'find_row_differences': lambda s: len(s['rows']) >= 2,
               'map_blocks': lambda s: len(s['sizes']) >= 2, 'make_stride': lambda s: len(s['shape']) >= 2,
               'sliced_copy': lambda s: all(x > 0 for x in s['slice']), 'pipe': lambda s: sum(len(l['q']) for l in s['legs']) >= 3}[spec['fn']](spec)
    return {'nontrivial': nontriv, 'classes': ['fn:' + spec['fn']] + (['error:' + cy['error']] if 'error' in cy else [])}


SUBCHECKS = [
    Sub('programs_diff', strategy_programs, run_programs, quick=2500, thorough=100000, configs=('cy',)),
    Sub('helpers_diff', helper_specs, run_helpers, quick=4000, thorough=200000, configs=('cy',)),
]
