"""C11 - MPO algebra equals operator algebra."""
import warnings

import numpy as np
import scipy.linalg
from hypothesis import strategies as st

from vf.core import Sub, Violation, require, Skip
from vf import mps as M

LEVEL = 'exploration'
RULE = ('Generated finite chains (2-6 sites, spin / boson / fermion / mixed sites with a common ChargeInfo, dim <= 2^9) with two MPOs '
        'built from random term lists (1-3 site terms, complex strengths, fermionic pairs with Jordan-Wigner strings, optionally '
        'hermitised) through MPOGraph.from_term_list or through MPO.from_grids (explicit W grids, IdL/IdR given, max_range unknown), '
        'and random MPS in a random charge sector with psi.norm != 1. Oracle: dense matrices (numpy kron / JW reference of vf.mps): '
        'expectation_value, variance, +, dagger, is_hermitian / is_equal (with a margin of 10^4 around the threshold), overlap, '
        'distance, to_TermList, prefactor, plus_identity, apply with SVD / zip_up / variational compression (exact without truncation, '
        'reported overlap bound with truncation), make_U_I / make_U_II (observed order on a dt ladder, H unchanged, exactness for '
        'commuting terms); infinite MPOs: expectation_value (power / TM) of product states against the term-wise sum, is_equal / overlap '
        'with unknown max_range. Non-trivial: >= 2 terms with at least one multi-site term, or a fermionic term, or complex strengths. '
        'Distinct = distinct canonical JSON spec.')
ASSUMPTIONS = ['MPS <-> dense conversion as validated by C07', 'site operators as validated by C12', 'term list -> MPO as validated by C10']
TOL = 1e-9


@st.composite
def algebra_specs(draw, tier):
    chain = draw(M.chain_specs(Lmin=2, Lmax=6, max_dim=2 ** 8))
    return {'chain': chain, 'seed': draw(st.integers(0, 2 ** 20)), 'n1': draw(st.integers(1, 4)), 'n2': draw(st.integers(1, 3)),
            'cplx': draw(st.booleans()), 'herm': draw(st.booleans()), 'norm': draw(st.sampled_from([1.0, 1.0, 2.5, 0.3])),
            'build': draw(st.sampled_from(['graph', 'graph', 'grids'])), 'method': draw(st.sampled_from(['SVD', 'zip_up', 'variational', 'none'])),
            'chi_max': draw(st.sampled_from([None, None, 2, 3, 5])), 'alpha': draw(st.sampled_from([1.0, 0.0, -0.5, [0.2, 1.0]])),
            'beta': draw(st.sampled_from([1.0, -0.1, 2.0, [0.0, -0.05]])), 'pi_sites': draw(st.integers(0, 30)),
            'dt': draw(st.sampled_from([[0.04, 0], [0, -0.04], [-0.03, 0.02]])), 'U': draw(st.sampled_from(['I', 'II']))}


def rand_terms(sites, cfg, rng, n, cplx):
    """neutral terms: diagonal operators, A_i A^dagger_j pairs (fermionic or not), optionally dressed with a neutral operator."""
    L = len(sites)
    terms, strengths = [], []

    def names(site, ferm=None, neutral=None):
        ns = sorted(x for x in site.opnames if not x.startswith('JW') and x != 'Id')
        if ferm is not None:
            ns = [x for x in ns if site.op_needs_JW(x) == ferm]
        if neutral is not None:
            ns = [x for x in ns if (not np.any(site.get_op(x).qtotal)) == neutral]
        return ns
    for _ in range(n):
        kind = rng.integers(0, 4)
        i = int(rng.integers(0, L))
        if kind == 0:
            cand = names(sites[i], False, True)
            term = [(cand[int(rng.integers(0, len(cand)))], i)]
        else:
            same = [k for k in range(L) if cfg[k] == cfg[i] and k != i]
            if not same:
                cand = names(sites[i], False, True)
                term = [(cand[int(rng.integers(0, len(cand)))], i)]
            else:
                j = same[int(rng.integers(0, len(same)))]
                cand = names(sites[i])
                a = cand[int(rng.integers(0, len(cand)))]
                term = [(a, i), (sites[i].get_hc_op_name(a), j)]
                if kind == 3 and L >= 3:
                    k = [x for x in range(L) if x not in (i, j)]
                    k = k[int(rng.integers(0, len(k)))]
                    cand = names(sites[k], False, True)
                    term.insert(int(rng.integers(0, 3)), (cand[int(rng.integers(0, len(cand)))], k))
        terms.append(term)
        strengths.append(complex(np.round(rng.normal(), 2), np.round(rng.normal(), 2)) if cplx else float(np.round(rng.normal(), 2)) or 0.5)
    return terms, strengths


def hermitise(sites, terms, strengths):
    t2, s2 = list(terms), list(strengths)
    for t, s in zip(terms, strengths):
        t2.append([(sites[i].get_hc_op_name(nm), i) for nm, i in reversed(t)])
        s2.append(np.conj(s))
    return t2, s2


def dense_terms(sites, terms, strengths):
    D = int(np.prod([s.dim for s in sites]))
    H = np.zeros((D, D), dtype=complex)
    for t, s in zip(terms, strengths):
        H += s * M.jw_term(sites, t)
    return H


def build_mpo(sites, terms, strengths, how):
    from tenpy.networks.terms import TermList
    from tenpy.networks.mpo import MPOGraph, MPO
    tl = TermList([list(t) for t in terms], list(strengths))
    g = MPOGraph.from_term_list(tl, sites, 'finite')
    H = g.build_MPO()
    if how == 'grids':
        # the same operator through explicit W grids with markers, range unknown
        grids = g._build_grids() if hasattr(g, '_build_grids') else None
        if grids is None:
            return H
        L = len(sites)
        IdL = [H.IdL[b] for b in range(L + 1)]
        IdR = [H.IdR[b] for b in range(L + 1)]
        legs = [H.get_W(i).get_leg('wL') for i in range(L)] + [H.get_W(L - 1).get_leg('wR').conj()]
        H2 = MPO.from_grids(sites, grids, 'finite', IdL, IdR, legs=legs, max_range=None)
        return H2
    return H


def run_algebra(spec):
    from tenpy.networks.mps import MPS
    from tenpy.networks.terms import TermList
    rng = np.random.default_rng(spec['seed'])
    with warnings.catch_warnings():
        warnings.simplefilter('ignore')
        sites = M.build_sites(spec['chain'])
        cfg = spec['chain']['cfg']
        L = len(sites)
        dims = [s.dim for s in sites]
        D = int(np.prod(dims))
        t1, s1 = rand_terms(sites, cfg, rng, spec['n1'], spec['cplx'])
        t2, s2 = rand_terms(sites, cfg, rng, spec['n2'], spec['cplx'])
        if spec['herm']:
            t1, s1 = hermitise(sites, t1, s1)
            t2, s2 = hermitise(sites, t2, s2)
        A = dense_terms(sites, t1, s1)
        B = dense_terms(sites, t2, s2)
        if np.linalg.norm(A) < 1e-8 or np.linalg.norm(B) < 1e-8:
            raise Skip()
        nA = np.linalg.norm(A)
        H1 = build_mpo(sites, t1, s1, spec['build'])
        H2 = build_mpo(sites, t2, s2, 'graph')
        tags = dict(build=spec['build'], herm=spec['herm'])
        classes = ['build:' + spec['build']]
        fermionic = any(sites[i].op_needs_JW(nm) for t in t1 for nm, i in t)
        multi = any(len(t) > 1 for t in t1)
        H1.test_sanity()
        require(np.linalg.norm(M.mpo_to_dense(H1) - A) <= TOL * max(1, nA), 'mpo-differs-from-terms', '', **tags)
        A_before = M.mpo_to_dense(H1)
        # state
        vec, q = M.random_state(sites, spec['seed'] + 1)
        psi = MPS.from_full(sites, M.to_npc_state(sites, vec, q), form='B')
        psi.norm = spec['norm']
        v = vec.reshape(-1)
        # --- expectation value / variance (documented: <psi|H|psi>/<psi|psi>, variance ignores psi.norm)
        ev = H1.expectation_value(psi)
        exp = np.vdot(v, A @ v)
        require(abs(ev - exp) <= TOL * max(1, nA), 'expectation_value', '%r vs dense %r (psi.norm = %r)' % (ev, exp, spec['norm']), **tags)
        var = H1.variance(psi)
        expv = np.vdot(v, A @ (A @ v)) - exp ** 2
        require(abs(var - expv) <= TOL * max(1, nA ** 2), 'variance', '%r vs dense %r' % (var, expv), **tags)
        # --- sum, dagger
        S = H1 + H2
        S.test_sanity()
        require(np.linalg.norm(M.mpo_to_dense(S) - (A + B)) <= TOL * max(1, nA + np.linalg.norm(B)), 'add', '', **tags)
        Hd = H1.dagger()
        Hd.test_sanity()
        require(np.linalg.norm(M.mpo_to_dense(Hd) - A.conj().T) <= TOL * max(1, nA), 'dagger', '', **tags)
        # --- hermiticity / equality tests with a margin around the documented threshold eps * (|A|^2 + |B|^2)
        nonherm = np.linalg.norm(A - A.conj().T) ** 2 / (2 * nA ** 2)
        ih = bool(H1.is_hermitian())
        if nonherm < 1e-14:
            require(ih, 'is_hermitian-false-negative', 'relative defect %r' % nonherm, **tags)
        elif nonherm > 1e-6:
            require(not ih, 'is_hermitian-false-positive', 'relative defect %r' % nonherm, **tags)
        # same operator, different representation: shuffled, split strengths
        perm = rng.permutation(len(t1))
        t1b = [t1[k] for k in perm] + [t1[k] for k in perm]
        s1b = [s1[k] * 0.25 for k in perm] + [s1[k] * 0.75 for k in perm]
        H1b = build_mpo(sites, t1b, s1b, 'graph')
        require(bool(H1.is_equal(H1b)), 'is_equal-false-negative', 'same operator from a reordered / split term list', **tags)
        require(bool(H1b.is_equal(H1)), 'is_equal-false-negative', 'same operator from a reordered / split term list (swapped)', **tags)
        for delta, should in ((1e-2, False), (1e-10, True)):
            H1c = build_mpo(sites, list(t1) + [t2[0]], list(s1) + [delta * nA / max(1e-12, np.linalg.norm(M.jw_term(sites, t2[0])))], 'graph')
            C = M.mpo_to_dense(H1c)
            rel = np.linalg.norm(C - A) ** 2 / (np.linalg.norm(C) ** 2 + nA ** 2)
            got = bool(H1.is_equal(H1c))
            if rel > 1e-6:
                require(not got, 'is_equal-false-positive', 'relative distance^2 %r' % rel, **tags)
            elif rel < 1e-14:
                require(got, 'is_equal-false-negative', 'relative distance^2 %r' % rel, **tags)
        # --- overlap, distance
        ov = H1.overlap(H2)
        exp_ov = np.vdot(A, B)
        require(abs(ov - exp_ov) <= TOL * max(1, nA * np.linalg.norm(B)), 'overlap', '%r vs Tr(A^dagger B) = %r' % (ov, exp_ov), **tags)
        dist = H1.distance(H2)
        exp_d = np.linalg.norm(A - B)
        require(abs(dist - exp_d) <= 1e-6 * max(1, exp_d), 'distance', '%r vs Frobenius distance %r (its square: %r)' % (dist, exp_d, exp_d ** 2), **tags)
        # --- prefactor
        t0 = sorted(t1[0], key=lambda x: x[1])
        # --- plus_identity
        a = complex(*spec['alpha']) if isinstance(spec['alpha'], list) else spec['alpha']
        b = complex(*spec['beta']) if isinstance(spec['beta'], list) else spec['beta']
        first = spec['pi_sites'] % L
        nmod = 1 + (spec['pi_sites'] // L) % (L - first)
        pi_sites = list(range(first, first + nmod))
        try:
            PI = H1.plus_identity(a, b, sites=pi_sites)
        except NotImplementedError:
            PI = None
        if PI is not None:
            PI.test_sanity()
            err = np.linalg.norm(M.mpo_to_dense(PI) - (a * np.eye(D) + b * A))
            require(err <= TOL * max(1, abs(a) * np.sqrt(D) + abs(b) * nA), 'plus_identity', 'alpha=%r beta=%r sites=%r: |result - (alpha + beta H)| = %r' % (a, b, pi_sites, err), multi=multi, **tags)
            classes.append('plus_identity:%s' % ('default' if pi_sites == [0] else 'interior' if 0 < first else 'left'))
        # --- to_TermList round trip (bosonic sites with a complete orthogonal operator basis only)
        if all(c in (1, 2) for c in cfg):  # sites having the complete operator basis (Sigmax, Sigmay need conserve != Sz)
            tl = H1.to_TermList(['Id', 'Sigmax', 'Sigmay', 'Sigmaz'], cutoff=1e-13)
            R = np.zeros((D, D), dtype=complex)
            for t, s in zip(tl.terms, tl.strength):
                R += s * M.dense_op(sites, {i: M.op_matrix(sites[i], nm) for nm, i in t})
            require(np.linalg.norm(R - A) <= 1e-8 * max(1, nA), 'to_TermList', '|terms - H| = %r' % np.linalg.norm(R - A), **tags)
            classes.append('to_TermList')
        # --- propagators
        dt = complex(*spec['dt'])
        if dt.imag == 0:
            dt = dt.real
        if spec['herm'] and D <= 81:
            errs = []
            for k in range(3):
                U = H1.make_U(dt / 2 ** k, spec['U'])
                U.test_sanity()
                Ud = M.mpo_to_dense(U)
                ex = scipy.linalg.expm(dt / 2 ** k * A)
                errs.append(np.linalg.norm(Ud - ex) / np.linalg.norm(ex))
            require(np.linalg.norm(M.mpo_to_dense(H1) - A_before) == 0, 'make_U-modified-H', 'make_U_%s(dt=%r) changed the W tensors of H' % (spec['U'], dt), U=spec['U'], **tags)
            # documented: both are first-order propagators: error O(dt^2) per step; U_II exact for (sums of) commuting on-site terms
            if 1e-9 < errs[0] <= 0.05:  # (asymptotic regime only: |dt H| small)
                order = np.log2(errs[1] / errs[2]) if errs[2] > 1e-13 else 99
                require(order >= 1.6, 'make_U-order', 'U_%s errors %r on dt, dt/2, dt/4: observed order %.2f < 2' % (spec['U'], errs, order), U=spec['U'], **tags)
                require(errs[0] <= 20 * (abs(dt) * np.linalg.norm(A, 2)) ** 2 * max(1, L), 'make_U-error-size', 'error %r for |dt H| = %r' % (errs[0], abs(dt) * np.linalg.norm(A, 2)), U=spec['U'], **tags)
            if not multi and spec['U'] == 'II':
                require(errs[0] <= 1e-9, 'make_U_II-onsite-not-exact', 'error %r for a sum of on-site terms' % errs[0], U='II', **tags)
            classes.append('U_' + spec['U'])
        # --- apply
        method = spec['method']
        if method == 'variational' and L < 3:
            method = 'SVD'
        if method != 'none':
            phi = psi.copy()
            chi_max = spec['chi_max']
            tp = {'chi_max': chi_max if chi_max else 10000, 'svd_min': 1e-14}
            opts = {'compression_method': method, 'trunc_params': tp}
            if method == 'variational':
                opts['max_sweeps'] = 4
            if method == 'zip_up':
                opts['m_temp'] = 2
            exact = A @ v * spec['norm']
            ne = np.linalg.norm(exact)
            if ne < 1e-6 * nA:
                raise Skip()  # H|psi> = 0 is not a state
            try:
                err = H1.apply(phi, opts)
            except Exception as e:
                if type(e).__name__ == 'TenpyInconsistencyError':
                    raise Skip()
                if method == 'zip_up' and chi_max is not None and 'infs or NaNs' in str(e):
                    # zip_up is documented to assume an MPO close to unity: truncating the intermediate states of a generic operator
                    # can annihilate the state
                    raise Skip()
                raise
            res = M.mps_to_dense(phi).reshape(-1)
            nr = np.linalg.norm(res)
            ov2 = abs(np.vdot(exact, res)) ** 2 / (ne * nr) ** 2
            truncated = chi_max is not None and max(phi.chi) >= chi_max
            mt = dict(method=method, **tags)
            if chi_max is None:
                require(1 - ov2 <= 1e-9, 'apply-direction', '1 - |<H psi|result>|^2 = %r without truncation' % (1 - ov2), **mt)
                require(abs(nr - ne) <= 1e-8 * ne, 'apply-norm', '|result| = %r, |H psi| = %r (psi.norm = %r)' % (nr, ne, spec['norm']), **mt)
                require(np.linalg.norm(res - exact) <= 1e-7 * ne, 'apply-phase', '', **mt)
            elif err is not None and hasattr(err, 'ov') and method == 'SVD':
                # (zip_up: documented to be controlled only for MPOs close to unity; variational: reports the last sweep only)
                require(ov2 >= err.ov - 1e-8, 'apply-error-bound', 'overlap^2 %r < reported bound %r (eps = %r)' % (ov2, err.ov, err.eps), **mt)
            phi.test_sanity()
            require(np.linalg.norm(M.mpo_to_dense(H1) - A_before) == 0, 'apply-modified-H', '', **mt)
            classes.append('apply:%s:%s' % (method, 'trunc' if chi_max else 'exact'))
            if spec['norm'] != 1.0:
                classes.append('psi.norm!=1')
    if fermionic:
        classes.append('fermionic')
    return {'nontrivial': bool((len(t1) >= 2 and multi) or fermionic or spec['cplx']), 'classes': classes}


SUBCHECKS = [Sub('algebra', algebra_specs, run_algebra, quick=500, thorough=30000)]


# ------------------------------------------------------------------------------------------------
# infinite MPOs

@st.composite
def infinite_specs(draw, tier):
    terms = []
    for _ in range(draw(st.integers(1, 4))):
        terms.append({'kind': draw(st.sampled_from(['onsite', 'coupling', 'coupling', 'multi', 'exp'])), 'a': [draw(st.integers(0, 10 ** 4)) for _ in range(6)],
                      'plus_hc': draw(st.booleans()), 'cplx': draw(st.booleans())})
    return {'cfg': draw(st.sampled_from([0, 1, 2, 4, 7, 8, 9, 10, 12, 14])), 'Lx': draw(st.integers(1, 4)), 'ladder': draw(st.booleans()), 'terms': terms,
            'state': draw(st.integers(0, 10 ** 6)), 'superpos': draw(st.booleans()), 'explicit_plus_hc': draw(st.booleans()),
            'via': draw(st.sampled_from(['default', 'TM', 'power']))}


def build_infinite(spec):
    """-> (model, site, N, terms_in(first, last) -> list of (strength, [(op, i), ...]))"""
    from tenpy.models.model import CouplingModel
    from tenpy.models import lattice
    site = M.make_site(M.SITE_CFGS[spec['cfg']])
    Lx = spec['Lx']
    cls = lattice.Ladder if spec['ladder'] else lattice.Chain
    if not spec['ladder'] and Lx < 2:
        Lx = 2
    lat = cls(Lx, site, bc='periodic', bc_MPS='infinite')
    Lu = len(lat.unit_cell)
    N = lat.N_sites
    fermionic = M.SITE_CFGS[spec['cfg']][0] in M.FERMIONIC
    bos = sorted(n for n in site.opnames if not site.op_needs_JW(n) and not n.startswith('JW') and n != 'Id')
    neutral = [n for n in bos if not np.any(site.get_op(n).qtotal)]
    ferm = M.fermionic_opnames(site)
    eph = spec['explicit_plus_hc']
    model = CouplingModel(lat, explicit_plus_hc=eph)
    gens = []  # (strength(x), plus_hc, ops, idx(x)) with x the unit cell index
    exps = []
    for t in spec['terms']:
        rng = np.random.default_rng(t['a'][0])
        kind = t['kind']
        plus_hc = t['plus_hc'] or eph
        sv = complex(np.round(rng.normal(), 2), np.round(rng.normal(), 2)) if t['cplx'] else float(np.round(rng.normal(), 2)) or 0.5
        if kind == 'onsite':
            u = t['a'][1] % Lu
            name = neutral[t['a'][2] % len(neutral)]
            s = np.round(rng.normal(size=lat.Ls), 2) if t['a'][3] % 2 else np.full(lat.Ls, np.real(sv))
            model.add_onsite(s.copy(), u, name, plus_hc=plus_hc)
            gens.append((lambda x, s=s: s[x % Lx], plus_hc, [name], lambda x, u=u: [x * Lu + u]))
        elif kind == 'coupling':
            u1, u2 = t['a'][1] % Lu, t['a'][2] % Lu
            dx = int(t['a'][3] % 7) - 3
            if u1 == u2 and dx == 0:
                dx = 1
            if fermionic and t['a'][4] % 2:
                op1 = ferm[t['a'][4] % len(ferm)]
            else:
                op1 = bos[t['a'][4] % len(bos)]
            op2 = site.get_hc_op_name(op1)
            model.add_coupling(sv, u1, op1, u2, op2, [dx], plus_hc=plus_hc)
            gens.append((lambda x, sv=sv: sv, plus_hc, [op1, op2], lambda x, u1=u1, u2=u2, dx=dx: [x * Lu + u1, (x + dx) * Lu + u2]))
        elif kind == 'multi':
            ops, used = [], set()
            for k in range(3 + t['a'][1] % 2):
                u = (t['a'][2] >> k) % Lu
                dxk = 0 if k == 0 else int((t['a'][3] >> (2 * k)) % 4) - 1
                if (dxk, u) in used:
                    continue
                used.add((dxk, u))
                ops.append([neutral[(t['a'][4] >> k) % len(neutral)], dxk, u])
            if len(ops) < 3:
                continue
            if fermionic and t['a'][5] % 2:
                f = ferm[t['a'][5] % len(ferm)]
                ops[0][0] = f
                ops[-1][0] = site.get_hc_op_name(f)
            model.add_multi_coupling(sv, [(o, [dx_], u) for o, dx_, u in ops], plus_hc=plus_hc)
            gens.append((lambda x, sv=sv: sv, plus_hc, [o[0] for o in ops], lambda x, ops=ops: [(x + dx_) * Lu + u for o, dx_, u in ops]))
        elif kind == 'exp':
            if fermionic and t['a'][1] % 2:
                op_i = ferm[t['a'][2] % len(ferm)]
                op_j = site.get_hc_op_name(op_i)
            else:
                op_i = neutral[t['a'][2] % len(neutral)]
                op_j = neutral[t['a'][3] % len(neutral)]
            lam = [0.5, 0.3, 0.5 * np.exp(0.4j)][t['a'][4] % 3]
            model.add_exponentially_decaying_coupling(sv, lam, op_i, op_j, plus_hc=plus_hc)
            exps.append((sv, lam, op_i, op_j, plus_hc))

    def terms_in(first, last):
        out = []
        for sfun, plus_hc, ops, idx in gens:
            for x in range(first // Lu - 8, last // Lu + 9):
                ii = idx(x)
                if all(first <= i <= last for i in ii):
                    term = list(zip(ops, ii))
                    out.append((sfun(x), term))
                    if plus_hc:
                        out.append((np.conj(sfun(x)), [(site.get_hc_op_name(o), i) for o, i in reversed(term)]))
        for sv, lam, op_i, op_j, plus_hc in exps:
            for i in range(first, last + 1):
                for j in range(i + 1, last + 1):
                    out.append((sv * lam ** (j - i), [(op_i, i), (op_j, j)]))
                    if plus_hc:
                        out.append((np.conj(sv * lam ** (j - i)), [(site.get_hc_op_name(op_j), j), (site.get_hc_op_name(op_i), i)]))
        return out
    return model, site, lat, terms_in, bool(gens or exps), bool(exps)


def run_infinite(spec):
    from tenpy.networks.mps import MPS
    from tenpy.networks.mpo import MPO
    with warnings.catch_warnings():
        warnings.simplefilter('ignore')
        model, site, lat, terms_in, any_terms, has_exp = build_infinite(spec)
        if not any_terms:
            raise Skip()
        N = lat.N_sites
        d = site.dim
        try:
            H = model.calc_H_MPO()
        except ValueError as e:
            if 'dead ends' in str(e) or "can't determine all charges" in str(e):
                raise Skip()  # the generated strengths vanish on some site: H has no term there
            raise
        H.test_sanity()
        rng = np.random.default_rng(spec['state'])
        # product state with the period of the MPS unit cell
        charged = site.leg.chinfo.qnumber > 0
        if spec['superpos'] and not charged:
            loc = [rng.normal(size=d) + 1j * rng.normal(size=d) for _ in range(N)]
            loc = [v / np.linalg.norm(v) for v in loc]
        else:
            loc = []
            for _ in range(N):
                v = np.zeros(d, dtype=complex)
                v[int(rng.integers(0, d))] = 1.
                loc.append(v)
        psi = MPS.from_product_state([site] * N, [v.copy() for v in loc], bc='infinite', dtype=complex, permute=False, unit_cell_width=lat.mps_unit_cell_width)

        def energy(first, last):
            n = last - first + 1
            wsites = [site] * n
            E = 0.
            for s, term in terms_in(first, last):
                local = M.jw_term_local(wsites, [(o, i - first) for o, i in term])
                val = s
                for k, m_ in enumerate(local):
                    v = loc[(first + k) % N]
                    val = val * np.vdot(v, m_ @ v)
                    if val == 0:
                        break
                E += val
            return E
        ncell = max(2, 36 // N)
        e_ref = (energy(0, (ncell + 1) * N - 1) - energy(0, ncell * N - 1)) / N
        scale = max(1., abs(energy(0, 2 * N - 1)))
        tags = dict(eph=spec['explicit_plus_hc'], via=spec['via'])
        if spec['via'] == 'TM':
            e = H.expectation_value_TM(psi)
        elif spec['via'] == 'power':
            e = H.expectation_value_power(psi)
        else:
            e = H.expectation_value(psi)
        require(abs(e - e_ref) <= 1e-7 * scale, 'infinite-expectation_value', 'energy density %r vs term-wise %r' % (e, e_ref), exp=has_exp, **tags)
        # unknown range: same tensors, max_range=None
        H2 = MPO(H.sites, [H.get_W(i) for i in range(N)], 'infinite', H.IdL, H.IdR, max_range=None, explicit_plus_hc=H.explicit_plus_hc, mps_unit_cell_width=H.unit_cell_width)
        require(bool(H.is_equal(H2)), 'infinite-is_equal', 'same tensors, max_range None', **tags)
        require(bool(H2.is_equal(H)), 'infinite-is_equal', 'same tensors, max_range None (swapped)', **tags)
        ov1 = H.overlap(H2, understood_infinite=True)
        ov2 = H2.overlap(H, understood_infinite=True)
        require(abs(ov1 - np.conj(ov2)) <= 1e-9 * max(1, abs(ov1)), 'infinite-overlap-symmetry', '%r vs %r' % (ov1, ov2), **tags)
        if spec['explicit_plus_hc'] or all(t['plus_hc'] for t in spec['terms']):  # hermitian by construction
            require(bool(H2.is_hermitian()), 'infinite-is_hermitian', 'every term was added with plus_hc', **tags)
        e2 = H2.expectation_value(psi)
        require(abs(e2 - e_ref) <= 1e-7 * scale, 'infinite-expectation_value', 'max_range None: %r vs %r' % (e2, e_ref), exp=has_exp, unknown_range=True, **tags)
        # hermiticity with an explicit window: is_hermitian(eps, max_range) / is_equal(other, eps, max_range) are documented to look at
        # the terms inside range(L + 2 max_range).  Reference: the dense sum of all generated terms inside that window (every kind
        # of term fits at least once, terms on different supports can not cancel each other).
        R = H.max_range
        cls_h = 'hermiticity-not-decided'
        if R is not None and R < np.inf and not spec['explicit_plus_hc'] and d ** (N + 2 * int(R)) <= 4096:
            n = N + 2 * int(R)
            wsites = [site] * n
            A = np.zeros((d ** n, d ** n), dtype=complex)
            for sv, term in terms_in(0, n - 1):
                A = A + sv * M.jw_term(wsites, [(o, i) for o, i in term])
            nA = np.linalg.norm(A)
            if nA > 1e-9:
                defect = np.linalg.norm(A - A.conj().T) / nA
                expected = True if defect < 1e-8 else (False if defect > 1e-3 else None)
                if expected is not None:
                    for name, val in [('is_hermitian()', H.is_hermitian()), ('unknown range: is_hermitian(max_range=R)', H2.is_hermitian(max_range=int(R))),
                                      ('unknown range: is_equal(dagger, max_range=R)', H2.is_equal(H2.dagger(), max_range=int(R))),
                                      ('is_hermitian(max_range=R+1)', H.is_hermitian(max_range=int(R) + 1))]:
                        require(bool(val) == expected, 'infinite-hermiticity-window', '%s = %r, dense window of %d sites: relative defect %r' % (name, bool(val), n, defect),
                                expected=expected, **tags)
                    cls_h = 'hermitian' if expected else 'non-hermitian'
    return {'nontrivial': True, 'classes': ['via:' + spec['via'], 'exp' if has_exp else 'finite-range', 'superposition' if (spec['superpos'] and not charged) else 'basis-state'] +
            (['explicit_plus_hc'] if spec['explicit_plus_hc'] else []) + [cls_h]}


SUBCHECKS.append(Sub('infinite', infinite_specs, run_infinite, quick=300, thorough=8000))
