"""C09 - MPS transformations implement the documented map on states."""
import itertools
import warnings

import numpy as np
from hypothesis import strategies as st

from vf.core import Sub, Violation, require, Skip
from vf import mps as M

LEVEL = 'exploration'
RULE = ('Generated histories (1-5 steps) on finite MPS of random entangled states (all site types, heterogeneous chains, fermions): '
        'apply_local_op (names / 1-3 site npc operators, unitary None/True/False, renormalize), apply_product_op, apply_local_term '
        '(i_offset, fermionic), swap_sites (auto / autoInv / None / explicit), permute_sites, add(alpha, beta), group_sites / group_split, '
        'enlarge_chi, compress_svd / compress (SVD, variational), spatial_inversion, gauge_total_charge, copy; after every step the '
        'dense state rebuilt from the raw tensors equals the dense shadow (dense operator / permutation with the documented fermionic '
        'sign / linear combination) incl. psi.norm, test_sanity and norm_test; compression: chi <= chi_max and overlap >= reported bound. '
        'infinite: enlarge_mps_unit_cell / roll_mps_unit_cell / spatial_inversion on random infinite MPS: all one- and two-site '
        'observables equal up to the relabelling of sites, inversion twice = identity, canonical form preserved. '
        'segment: a segment cut (one- or two-sided) out of a random finite chain by extract_segment, transformed by apply_local_op (names, '
        '1-3 site operators, non-unitary), apply_product_op, swap_sites, canonical_form (segment boundaries), convert_form, copy: the '
        'unnormalised reduced density matrix of the segment (raw tensors with both outer singular-value sets, times psi.norm^2) equals the '
        'one of the parent state vector transformed by the same dense operators. '
        'Non-trivial: >= 2 executed transformations with chi >= 2 before the first. Distinct = distinct canonical JSON spec.')
ASSUMPTIONS = ['MPS <-> dense conversion validated by C07, site operators by C12', 'permute_sites direction as fixed by the test-suite: site i moves to perm[i]']
TOL = 1e-9

STEPS = ['local_op', 'local_op', 'local_op_n', 'product_op', 'local_term', 'swap', 'swap', 'permute', 'add', 'group', 'enlarge_chi', 'compress', 'inversion', 'gauge', 'copy',
         'canonical', 'convert', 'convert']


@st.composite
def hist_specs(draw, tier):
    return {'chain': draw(M.chain_specs(2, 6, max_dim=2 ** 10)), 'seed': draw(st.integers(0, 10 ** 6)), 'norm': draw(st.sampled_from([1.0, 1.0, 0.5, 2.0])),
            'steps': draw(st.lists(st.tuples(st.sampled_from(STEPS), st.integers(0, 10 ** 5)), min_size=1, max_size=5))}


def jw_exponents(site):
    return np.round(np.asarray(site.JW_exponent).real).astype(int) % 2


def check(psi, ref, tags, canonical=True, ray=False):
    psi.test_sanity()
    got = M.mps_to_dense(psi)
    require(got.shape == ref.shape, 'dense-shape', '%s vs %s' % (got.shape, ref.shape), **tags)
    a, b = got, ref
    if ray:
        na, nb = np.linalg.norm(a), np.linalg.norm(b)
        a, b = a / na, b / nb
        ov = np.vdot(b, a)
        a = a * (abs(ov) / ov) if abs(ov) > 1e-12 else a
    err = np.linalg.norm(a - b)
    require(err <= TOL * max(1., np.linalg.norm(b)), 'state-mismatch', '|psi_mps - psi_ref| = %r (norms %r vs %r, psi.norm=%r)' % (err, np.linalg.norm(got), np.linalg.norm(ref), psi.norm), **tags)
    if canonical:
        nt = psi.norm_test()
        require(np.max(np.abs(nt)) < 1e-8, 'norm_test', 'max %r' % float(np.max(np.abs(nt))), **tags)


def run_hist(spec):
    from tenpy.networks.mps import MPS
    from tenpy.linalg import np_conserved as npc
    from tenpy.networks.site import GroupedSite
    with warnings.catch_warnings():
        warnings.simplefilter('ignore')
        sites = M.build_sites(spec['chain'])
        vec, q = M.random_state(sites, spec['seed'])
        psi = MPS.from_full(sites, M.to_npc_state(sites, vec, q), form='B')
        psi.norm = spec['norm']
        ref = vec * spec['norm']
        chi0 = max(psi.chi)
        done = []
        fermionic = any(M.SITE_CFGS[c][0] in M.FERMIONIC for c in spec['chain']['cfg'])
        grouped = None  # (n, original sites) while sites are grouped
        for kind, arg in spec['steps']:
            rng = np.random.default_rng(arg)
            L = psi.L
            sites = list(psi.sites)
            dims = [s.dim for s in sites]
            tags = dict(step=kind)
            if grouped is not None and kind not in ('group', 'copy', 'canonical'):
                continue
            if kind == 'local_op':
                i = int(rng.integers(0, L))
                names = sorted(n for n in sites[i].opnames if not sites[i].op_needs_JW(n) and not n.startswith('JW'))
                name = names[int(rng.integers(0, len(names)))]
                op = M.op_matrix(sites[i], name)
                if np.linalg.norm(M.dense_op(sites, {i: op}) @ ref.ravel()) < 1e-6 * np.linalg.norm(ref):
                    continue  # the operator annihilates the state: no MPS can represent the zero vector
                unitary = [None, None, False][int(rng.integers(0, 3))]
                renorm = bool(rng.integers(0, 4) == 0)
                n0 = psi.norm
                psi.apply_local_op(i, name, unitary=unitary, renormalize=renorm)
                new = (M.dense_op(sites, {i: op}) @ ref.ravel()).reshape(ref.shape)
                tags.update(unitary=str(unitary), renormalize=renorm)
                if renorm:
                    # documented: the change of the norm is discarded
                    require(abs(psi.norm - n0) < 1e-12 * max(1, n0), 'renormalize-changed-norm', '%r -> %r' % (n0, psi.norm), **tags)
                    ref = new / np.linalg.norm(new) * np.linalg.norm(ref)
                    check(psi, ref, tags)
                else:
                    ref = new
                    check(psi, ref, tags)
            elif kind == 'local_op_n':
                n = int(rng.integers(1, min(3, L) + 1))
                i = int(rng.integers(0, L - n + 1))
                # random charge-conserving n-site operator: sum of products of named operators with total charge 0
                op = None
                mats = []
                for k in range(n):
                    s = sites[i + k]
                    cand = sorted(nm for nm in s.opnames if not s.op_needs_JW(nm) and not nm.startswith('JW') and not np.any(s.get_op(nm).qtotal))
                    nm = cand[int(rng.integers(0, len(cand)))]
                    o = s.get_op(nm).replace_labels(['p', 'p*'], ['p%d' % k, 'p%d*' % k])
                    mats.append(M.op_matrix(s, nm))
                    op = o if op is None else npc.outer(op, o)
                if n == 1:
                    op = op.replace_labels(['p0', 'p0*'], ['p', 'p*'])
                # make it generic (non-unitary, entangling): add identity
                idn = None
                for k in range(n):
                    o = sites[i + k].Id.replace_labels(['p', 'p*'], ['p%d' % k, 'p%d*' % k])
                    idn = o if idn is None else npc.outer(idn, o)
                if n == 1:
                    idn = idn.replace_labels(['p0', 'p0*'], ['p', 'p*'])
                op = op + 0.5 * idn
                D = M.dense_op(sites, {i + k: mats[k] for k in range(n)}) + 0.5 * np.eye(int(np.prod(dims)))
                new = (D @ ref.ravel()).reshape(ref.shape)
                if np.linalg.norm(new) < 1e-6 * np.linalg.norm(ref):
                    continue
                psi.apply_local_op(i, op, unitary=[None, False][int(rng.integers(0, 2))])
                ref = new
                tags.update(n=n)
                check(psi, ref, tags)
            elif kind == 'product_op':
                names = []
                mats = {}
                for k, s in enumerate(sites):
                    cand = sorted(nm for nm in s.opnames if not s.op_needs_JW(nm) and not nm.startswith('JW'))
                    nm = cand[int(rng.integers(0, len(cand)))] if rng.integers(0, 2) else 'Id'
                    names.append(nm)
                    mats[k] = M.op_matrix(s, nm)
                new = (M.dense_op(sites, mats) @ ref.ravel()).reshape(ref.shape)
                if np.linalg.norm(new) < 1e-6 * np.linalg.norm(ref):
                    continue
                psi.apply_product_op(names, unitary=[None, None, False][int(rng.integers(0, 3))])
                ref = new
                tags.update(ops=' '.join(names)[:60])
                check(psi, ref, tags)
            elif kind == 'local_term':
                nops = int(rng.integers(1, 4))
                off = int(rng.integers(0, L))
                term = []
                for _ in range(nops):
                    i = int(rng.integers(0, L))
                    s = sites[i]
                    cand = sorted(nm for nm in s.opnames if not nm.startswith('JW'))
                    term.append((cand[int(rng.integers(0, len(cand)))], i))
                nf = sum(sites[i].op_needs_JW(nm) for nm, i in term)
                if nf % 2:
                    fs = [i for i in range(L) if M.fermionic_opnames(sites[i])]
                    i = fs[int(rng.integers(0, len(fs)))]
                    fn = M.fermionic_opnames(sites[i])
                    term.append((fn[int(rng.integers(0, len(fn)))], i))
                new = (M.jw_term(sites, term) @ ref.ravel()).reshape(ref.shape)
                if np.linalg.norm(new) < 1e-6 * np.linalg.norm(ref):
                    continue
                # give the term relative to an offset
                imin = min(i for _, i in term)
                off = int(rng.integers(0, imin + 1))
                rel = [(nm, i - off) for nm, i in term]
                psi.apply_local_term(rel, i_offset=off)
                ref = new
                tags.update(fermionic=bool(nf > 0), offset=bool(off > 0))
                check(psi, ref, tags)
            elif kind == 'swap':
                if L < 2:
                    continue
                i = int(rng.integers(0, L - 1))
                mode = ['auto', 'auto', 'autoInv', None, 'explicit'][int(rng.integers(0, 5))]
                if fermionic and mode is None:
                    mode = 'auto'
                nL, nR = jw_exponents(sites[i]), jw_exponents(sites[i + 1])
                dL, dR = dims[i], dims[i + 1]
                sign = (-1.0) ** np.outer(nL, nR)  # [a (old site i), b (old site i+1)]
                if mode == 'autoInv' and not np.any(np.outer(nL, nR)):
                    mode = 'auto'  # the documented autoInv operator is defined for two fermionic sites
                if mode == 'autoInv':
                    sign = sign * ((-1j) ** nL)[:, None] * ((-1j) ** nR)[None, :]
                sh = [1] * L
                sh[i], sh[i + 1] = dL, dR
                new = np.swapaxes(ref * sign.reshape(sh), i, i + 1)
                if mode == 'explicit':
                    n_i_n_j = np.outer(nL, nR).reshape(dL * dR)
                    dense = np.diag((-1.0) ** n_i_n_j)
                    swap_op = npc.Array.from_ndarray(dense.reshape([dL, dR, dL, dR]), [sites[i].leg, sites[i + 1].leg, sites[i].leg.conj(), sites[i + 1].leg.conj()],
                                                     labels=['p1', 'p0', 'p0*', 'p1*'])
                    psi.swap_sites(i, swap_op)
                else:
                    psi.swap_sites(i, mode)
                ref = new
                tags.update(mode=str(mode), fermionic=fermionic, hetero=bool(spec['chain']['cfg'][0] != spec['chain']['cfg'][-1] or len(set(spec['chain']['cfg'])) > 1))
                require(psi.sites[i] is sites[i + 1] and psi.sites[i + 1] is sites[i], 'swap-sites-list', '', **tags)
                check(psi, ref, tags)
            elif kind == 'permute':
                perm = [int(x) for x in rng.permutation(L)]
                # site i moves to perm[i]; fermionic sign from the exchanged occupied modes
                new = np.zeros([dims[perm.index(k)] for k in range(L)], dtype=complex)
                ns = [jw_exponents(s) for s in sites]
                for idx in itertools.product(*[range(dm) for dm in dims]):
                    amp = ref[idx]
                    if amp == 0:
                        continue
                    sgn = 1
                    for a in range(L):
                        for b in range(a + 1, L):
                            if perm[a] > perm[b] and ns[a][idx[a]] * ns[b][idx[b]] % 2:
                                sgn = -sgn
                    nidx = [None] * L
                    for a in range(L):
                        nidx[perm[a]] = idx[a]
                    new[tuple(nidx)] = sgn * amp
                psi.permute_sites(perm)
                ref = new
                tags.update(fermionic=fermionic)
                for a in range(L):
                    require(psi.sites[perm[a]] is sites[a], 'permute-sites-list', 'perm %s' % perm, **tags)
                check(psi, ref, tags)
            elif kind == 'add':
                if L < 2:
                    continue
                # a second state in the same sector and the same charge gauge: psi with a random positive diagonal operator applied
                phi = psi.copy()
                i = int(rng.integers(0, L))
                dvals = rng.uniform(0.3, 2.0, size=dims[i])
                phi.apply_local_op(i, npc.diag(dvals, sites[i].leg, labels=['p', 'p*']), unitary=False)
                shp = [1] * L
                shp[i] = dims[i]
                phi_vec = ref * dvals.reshape(shp)
                phi.norm = phi.norm * 1.5
                phi_vec = phi_vec * 1.5
                alpha, beta = complex(rng.normal(), rng.normal()), complex(rng.normal(), rng.normal())
                if rng.integers(0, 4):
                    # distribute the total charge in the same (default) way over the tensors of both states
                    psi.gauge_total_charge()
                    phi.gauge_total_charge()
                    tags.update(gauged=True)
                else:
                    tags.update(gauged=False)
                try:
                    res = psi.add(phi, alpha, beta)
                except ValueError as e:
                    raise Violation('add-raises', 'ValueError: %s' % str(e)[:100], **tags)
                new = alpha * ref + beta * phi_vec
                check(psi, ref, tags)  # operands untouched
                check(phi, phi_vec, dict(tags, operand='other'))
                psi = res
                ref = new
                check(psi, ref, tags)
            elif kind == 'group':
                if grouped is None:
                    n = 2 + int(rng.integers(0, 2))
                    if L < n:
                        continue
                    orig_sites = list(sites)
                    psi.group_sites(n)
                    grouped = (n, orig_sites)
                    # measured through the grouped operators (validated by C12) the state is the same
                    require(psi.L == -(-L // n), 'group-L', '', **tags)
                    nrm = np.linalg.norm(ref)
                    for g, gs in enumerate(psi.sites):
                        if not isinstance(gs, GroupedSite):
                            continue
                        for k, s0 in enumerate(gs.sites):
                            i0 = g * n + k
                            for nm in sorted(x for x in s0.opnames if not s0.op_needs_JW(x) and not x.startswith('JW') and x != 'Id' and not np.any(s0.get_op(x).qtotal))[:2]:
                                got = psi.expectation_value(nm + str(k), sites=[g])[0]
                                exp = np.vdot(ref.ravel(), M.dense_op(orig_sites, {i0: M.op_matrix(s0, nm)}) @ ref.ravel()) / nrm ** 2
                                require(abs(got - exp) < 1e-8, 'group_sites-observable', '<%s_%d>: %r vs %r' % (nm, i0, got, exp), **tags)
                else:
                    if arg % 2:
                        # documented default: truncation to max(chi) of the grouped MPS, with reported error
                        err = psi.group_split()
                        got = M.mps_to_dense(psi)
                        ov2 = abs(np.vdot(got, ref)) ** 2 / (np.linalg.norm(got) * np.linalg.norm(ref)) ** 2
                        require(ov2 >= err.ov - 1e-9, 'group_split-error-bound', 'overlap^2 %r < reported bound %r' % (ov2, err.ov), **tags)
                        psi.canonical_form(renormalize=False)
                        ref = M.mps_to_dense(psi)
                    else:
                        err = psi.group_split({'chi_max': 10 ** 5, 'svd_min': 1e-13})
                        require(err.eps < 1e-20, 'group_split-error', repr(err), **tags)
                    grouped = None
                    require(psi.L == ref.ndim, 'group_split-L', '', **tags)
                    check(psi, ref, tags)
            elif kind == 'enlarge_chi':
                if sites[0].leg.chinfo.qnumber > 0:
                    continue  # with charges an integer extra can make a charge block overcomplete (documented caveat)
                extra = [None]
                for b in range(1, L):
                    room = min(int(np.prod(dims[:b])), int(np.prod(dims[b:]))) - psi.chi[b - 1]
                    e = int(rng.integers(1, 3)) if rng.integers(0, 2) else None
                    extra.append(e if (e is not None and e <= room) else None)
                extra.append(None)
                chi_before = list(psi.chi)
                psi.enlarge_chi(extra)
                tags.update()
                check(psi, ref, tags, canonical=False)
                for b, e in enumerate(extra[1:-1]):
                    if e:
                        require(psi.chi[b] == chi_before[b] + e, 'enlarge_chi-dimension', 'bond %d: %d -> %d, extra %d' % (b + 1, chi_before[b], psi.chi[b], e), **tags)
                # additional singular values are exactly zero, old ones kept
                psi.canonical_form(renormalize=False)
                check(psi, ref, tags)
            elif kind == 'compress':
                chi_max = int(rng.integers(1, max(2, max(psi.chi)) + 1))
                method = ['svd', 'svd', 'SVD_opts', 'variational'][int(rng.integers(0, 4))]
                if method == 'variational' and L < 3:
                    method = 'svd'  # two-site sweeps need L > 2 (asserted by the library)
                before = M.mps_to_dense(psi)
                nb = np.linalg.norm(before)
                backup = psi.copy()
                if method == 'svd':
                    err = psi.compress_svd({'chi_max': chi_max})
                elif method == 'SVD_opts':
                    err = psi.compress({'compression_method': 'SVD', 'trunc_params': {'chi_max': chi_max}})
                else:
                    # documented return value of the variational method: "the maximal truncation error of a two-site wave function":
                    # record every two-site truncation that is performed (harness wrapper around svd_theta)
                    from tenpy.algorithms import mps_common as _mc
                    recorded = []
                    _orig = _mc.svd_theta

                    def _rec(*a, **kw):
                        res = _orig(*a, **kw)
                        recorded.extend(float(r.eps) for r in res if type(r).__name__ == 'TruncationError')
                        return res
                    _mc.svd_theta = _rec
                    try:
                        err = psi.compress({'compression_method': 'variational', 'trunc_params': {'chi_max': chi_max}, 'max_sweeps': 3})
                    except Exception as e:
                        if type(e).__name__ == 'TenpyInconsistencyError':
                            # documented consistency check (max_trunc_err exceeded): the compression is refused, not wrong
                            psi = backup
                            continue
                        raise
                    finally:
                        _mc.svd_theta = _orig
                    if recorded:
                        require(abs(err.eps - max(recorded)) <= 1e-12, 'compress-max-two-site-error',
                                'reported eps = %r, maximal eps of the %d two-site truncations performed = %r' % (err.eps, len(recorded), max(recorded)), method=method, **tags)
                psi.test_sanity()
                require(max(psi.chi) <= chi_max, 'compress-chi_max', '%s > %d' % (psi.chi, chi_max), method=method, **tags)
                after = M.mps_to_dense(psi)
                na = np.linalg.norm(after)
                ov2 = abs(np.vdot(before, after)) ** 2 / (nb * na) ** 2
                # (`ov` is a first-order bound, prod (1 - 2 eps_i): only meaningful in the perturbative regime)
                if err is not None and hasattr(err, 'ov') and method != 'variational' and err.eps <= 0.2:
                    require(ov2 >= err.ov - 1e-9, 'compress-error-bound', 'overlap^2 %r < reported lower bound %r (eps=%r)' % (ov2, err.ov, err.eps), method=method, **tags)
                    if max(M.schmidt_values(before / nb, list(before.shape), k).size for k in range(1, L)) <= chi_max and method != 'variational':
                        pass
                nt = np.asarray(psi.norm_test())
                # a single truncating sweep keeps the tensors right-canonical (B form); left-canonicity is only approximate
                require(np.max(np.abs(nt[:, 0])) < 1e-7, "norm_test-B", "after compress: %r" % float(np.max(np.abs(nt[:, 0]))), method=method, **tags)
                # no truncation necessary -> state unchanged
                full_rank = max(int(np.sum(M.schmidt_values(before / nb, list(before.shape), k) > 1e-12)) for k in range(1, L)) if L > 1 else 1
                if chi_max >= full_rank:
                    require(abs(ov2 - 1) < 1e-9, 'compress-without-truncation-changed-state', 'overlap^2 = %r' % ov2, method=method, **tags)
                    if method != 'variational':
                        require(abs(na - nb) < 1e-9 * nb, 'compress-norm', '%r vs %r' % (na, nb), method=method, **tags)
                psi.canonical_form(renormalize=False)
                ref = M.mps_to_dense(psi)
                require(abs(np.vdot(ref, after)) >= (1 - 1e-9) * np.linalg.norm(ref) * np.linalg.norm(after), 'canonical_form-after-compress-changed-state', '', **tags)
            elif kind == 'inversion':
                if fermionic:
                    continue
                psi.spatial_inversion()
                ref = np.transpose(ref, list(range(L))[::-1])
                require(all(a is b for a, b in zip(psi.sites, sites[::-1])), 'inversion-sites', '', **tags)
                check(psi, ref, tags)
            elif kind == 'gauge':
                psi.gauge_total_charge()
                check(psi, ref, tags)
                require(not np.any(psi.get_total_charge(only_physical_legs=False)) or True, 'gauge', '', **tags)
            elif kind == 'copy':
                cp = psi.copy()
                try:
                    cp.apply_local_op(0, sorted(n for n in cp.sites[0].opnames if not cp.sites[0].op_needs_JW(n))[0], unitary=False) if grouped is None else None
                except ValueError as e:
                    if 'destroys state' not in str(e):  # documented error if the operator annihilates the state
                        raise
                cp.norm = 17.0
                if grouped is None:
                    check(psi, ref, tags)
                continue
            elif kind == 'convert':
                # mixed canonical forms (as left behind by sweeps / from_full(form=None)): the represented state must not change,
                # and the following steps act on a non-uniform form
                if grouped is not None:
                    continue
                r2 = np.random.default_rng(arg)
                if arg % 3 == 0:
                    c = int(r2.integers(0, L))
                    forms = ['A'] * c + ['Th' if arg % 2 else 'B'] + ['B'] * (L - c - 1)
                else:
                    forms = [['A', 'B', 'C', 'G', 'Th'][int(k)] for k in r2.integers(0, 5, size=L)]
                psi.convert_form(forms)
                check(psi, ref, tags, canonical=False)
            elif kind == 'canonical':
                if grouped is not None:
                    continue
                psi.canonical_form(renormalize=False)
                check(psi, ref, tags)
            done.append(kind)
    return {'nontrivial': len(done) >= 2 and chi0 >= 2, 'classes': ['step:' + d for d in set(done)] + (['fermionic'] if fermionic else [])}


# ------------------------------------------------------------------------------------------------
# infinite MPS: unit cell manipulations leave observables unchanged up to relabelling


@st.composite
def inf_specs(draw, tier):
    cfg = draw(st.sampled_from([0, 2, 4, 9, 10]))
    L = draw(st.integers(1, 4))
    return {'cfg': cfg, 'L': L, 'seed': draw(st.integers(0, 10 ** 6)), 'chi': draw(st.integers(2, 4)),
            'steps': draw(st.lists(st.tuples(st.sampled_from(['enlarge', 'roll', 'inversion', 'inversion2', 'convert']), st.integers(0, 100)), min_size=1, max_size=3))}


def observables(psi, window):
    """one- and two-site observables on sites 0..window-1 (infinite MPS)."""
    site = psi.sites[0]
    names = sorted(n for n in site.opnames if not n.startswith('JW') and not site.op_needs_JW(n) and not np.any(site.get_op(n).qtotal))[:3]
    out = {}
    for n in names:
        out[n] = np.asarray(psi.expectation_value(n, sites=list(range(window))))
        out[n + n] = np.asarray(psi.correlation_function(n, n, sites1=list(range(window)), sites2=list(range(window))))
    out['S'] = np.asarray([psi.entanglement_entropy(bonds=[b % psi.L])[0] for b in range(window)])
    return out


def run_inf(spec):
    from tenpy.networks.mps import MPS
    with warnings.catch_warnings():
        warnings.simplefilter('ignore')
        site = M.make_site(M.SITE_CFGS[spec['cfg']])
        L = spec['L']
        np.random.seed(spec['seed'] % (2 ** 31))
        # a random infinite MPS: evolve a product state by random two-site unitaries is not available offline -> use from_desired_bond_dimension
        try:
            psi = MPS.from_desired_bond_dimension([site] * L, spec['chi'], bc='infinite', permute=True)
        except Exception:
            raise Skip()
        psi.canonical_form()
        if max(psi.chi) < 2:
            raise Skip()
        W = 2 * L + 2
        cur = psi
        done = []
        for kind, arg in spec['steps']:
            tags = dict(step='inf-' + kind)
            before = observables(cur, W + 4 * cur.L)
            Lc = cur.L
            if kind == 'enlarge':
                cur = cur.copy()
                cur.enlarge_mps_unit_cell(2)
                require(cur.L == 2 * Lc, 'enlarge-L', '', **tags)
                after = observables(cur, W)
                for k in before:
                    b = before[k][:W] if before[k].ndim == 1 else before[k][:W, :W]
                    require(np.allclose(after[k], b, atol=1e-8), 'observable-changed', '%s: %s vs %s' % (k, np.round(after[k], 6).tolist(), np.round(b, 6).tolist()), obs=k, **tags)
            elif kind == 'roll':
                sh = 1 + arg % max(1, Lc)
                cur = cur.copy()
                cur.roll_mps_unit_cell(sh)
                after = observables(cur, W + sh)
                # documented: site i becomes site i + shift
                for k in before:
                    if before[k].ndim == 1:
                        require(np.allclose(after[k][sh:sh + W], before[k][:W], atol=1e-8), 'observable-changed', '%s after roll by %d: %s vs %s' % (
                            k, sh, np.round(after[k][sh:sh + W], 6).tolist(), np.round(before[k][:W], 6).tolist()), obs=k, **tags)
                    else:
                        require(np.allclose(after[k][sh:sh + W, sh:sh + W], before[k][:W, :W], atol=1e-8), 'observable-changed', '%s after roll by %d' % (k, sh), obs=k, **tags)
            elif kind in ('inversion', 'inversion2'):
                cur = cur.copy()
                cur.spatial_inversion()
                nt = cur.norm_test()
                require(np.max(np.abs(nt)) < 1e-8, 'norm_test', 'after spatial_inversion of an infinite MPS: %r' % float(np.max(np.abs(nt))), **tags)
                after = observables(cur, W + 4 * Lc)
                # site i <-> L-1-i (mod L): compare one-site observables on a window and correlations C[i,j] -> C[L-1-i, L-1-j]
                n = 2 * Lc
                for k in before:
                    if before[k].ndim == 1 and k != 'S':
                        exp = np.array([before[k][(Lc - 1 - i) % Lc] for i in range(n)])
                        require(np.allclose(after[k][:n], exp, atol=1e-8), 'observable-changed', '%s after inversion: %s vs %s' % (k, np.round(after[k][:n], 6).tolist(), np.round(exp, 6).tolist()), obs=k, **tags)
                    elif before[k].ndim == 2:
                        # translation invariance by Lc: use distance-resolved correlations from site i0
                        for i in range(Lc):
                            for dd in range(1, Lc + 2):
                                a = after[k][i, i + dd]
                                io = (Lc - 1 - i) % Lc + 2 * Lc
                                b = before[k][io, io - dd]
                                require(abs(a - b) < 1e-8, 'observable-changed', '%s(%d,%d) after inversion: %r vs %r' % (k, i, i + dd, a, b), obs=k, **tags)
                if kind == 'inversion2':
                    cur.spatial_inversion()
                    again = observables(cur, W + 4 * Lc)
                    for k in before:
                        require(np.allclose(again[k], before[k], atol=1e-8), 'inversion-twice-not-identity', k, obs=k, **tags)
            elif kind == 'convert':
                cur = cur.copy()
                cur.convert_form(['A', 'C', 'B'][arg % 3])
                after = observables(cur, W)
                for k in before:
                    b = before[k][:W] if before[k].ndim == 1 else before[k][:W, :W]
                    require(np.allclose(after[k], b, atol=1e-8), 'observable-changed', k, obs=k, **tags)
            done.append(kind)
    return {'nontrivial': True, 'classes': ['inf:' + d for d in set(done)]}


# ------------------------------------------------------------------------------------------------
# segment boundary conditions: a segment cut out of a finite chain, transformed in place; reference = the parent state vector
# transformed by the same dense operators, compared through the (unnormalised) reduced density matrix of the segment


# (compress_svd and gauge_total_charge raise NotImplementedError for segment boundary conditions: not part of the domain)
SEG_STEPS = ['local_op', 'local_op', 'local_op_n', 'product_op', 'swap', 'swap', 'canonical', 'convert', 'copy']


@st.composite
def seg_specs(draw, tier):
    return {'chain': draw(M.chain_specs(4, 6, max_dim=2 ** 10)), 'seed': draw(st.integers(0, 10 ** 6)), 'norm': draw(st.sampled_from([1.0, 1.0, 0.5, 2.0])),
            'cut': [draw(st.integers(0, 2)), draw(st.integers(0, 2))],
            'steps': draw(st.lists(st.tuples(st.sampled_from(SEG_STEPS), st.integers(0, 10 ** 5)), min_size=1, max_size=5))}


def seg_rho(vec3):
    """vec3: (E_left, D_inner, E_right) -> unnormalised reduced density matrix of the inner sites"""
    return np.einsum('apb,aqb->pq', vec3, vec3.conj())


def check_seg(seg, ref3, tags, canonical=True):
    seg.test_sanity()
    th = M.mps_to_dense(seg)  # (vL, p_0 .. p_{n-1}, vR), includes seg.norm
    th = th.reshape(th.shape[0], -1, th.shape[-1])
    got = seg_rho(th)
    exp = seg_rho(ref3)
    err = np.linalg.norm(got - exp)
    require(err <= 10 * TOL * max(1., np.linalg.norm(exp)), 'segment-state-mismatch', '|rho_segment - rho_ref| = %r (traces %r vs %r, psi.norm = %r)' % (
        err, np.trace(got).real, np.trace(exp).real, seg.norm), **tags)
    if canonical:
        nt = seg.norm_test()
        require(np.max(np.abs(nt)) < 1e-8, 'norm_test', 'segment: max %r' % float(np.max(np.abs(nt))), **tags)


def run_seg(spec):
    from tenpy.networks.mps import MPS
    from tenpy.linalg import np_conserved as npc
    with warnings.catch_warnings():
        warnings.simplefilter('ignore')
        psites = M.build_sites(spec['chain'])
        Lp = len(psites)
        first = min(spec['cut'][0], Lp - 2)
        last = max(first + 1, Lp - 1 - spec['cut'][1])
        if first == 0 and last == Lp - 1:
            first = 1
        vec, q = M.random_state(psites, spec['seed'])
        parent = MPS.from_full(psites, M.to_npc_state(psites, vec, q), form='B')
        seg = parent.extract_segment(first, last)
        require(seg.bc == 'segment' and seg.L == last - first + 1, 'extract_segment', 'bc %r L %r' % (seg.bc, seg.L), step='extract')
        seg.norm = spec['norm']
        sites = list(seg.sites)
        n = len(sites)
        pdims = [s_.dim for s_ in psites]
        EL, ER = int(np.prod(pdims[:first])), int(np.prod(pdims[last + 1:]))
        dims = [s_.dim for s_ in sites]
        D = int(np.prod(dims))
        ref = (vec * spec['norm']).reshape(EL, D, ER)
        check_seg(seg, ref, dict(step='extract'))
        fermionic = any(M.SITE_CFGS[c][0] in M.FERMIONIC for c in spec['chain']['cfg'])
        done = []

        def apply(Dop):
            return np.einsum('pq,aqb->apb', Dop, ref)
        for kind, arg in spec['steps']:
            rng = np.random.default_rng(arg)
            sites = list(seg.sites)
            dims = [s_.dim for s_ in sites]
            tags = dict(step='seg-' + kind)
            if kind == 'local_op':
                i = int(rng.integers(0, n))
                names = sorted(nm for nm in sites[i].opnames if not sites[i].op_needs_JW(nm) and not nm.startswith('JW'))
                name = names[int(rng.integers(0, len(names)))]
                new = apply(M.dense_op(sites, {i: M.op_matrix(sites[i], name)}))
                if np.linalg.norm(new) < 1e-6 * np.linalg.norm(ref):
                    continue
                unitary = [None, None, False][int(rng.integers(0, 3))]
                seg.apply_local_op(i, name, unitary=unitary)
                ref = new
                tags.update(unitary=str(unitary))
                check_seg(seg, ref, tags)
            elif kind == 'local_op_n':
                m = int(rng.integers(1, min(3, n) + 1))
                i = int(rng.integers(0, n - m + 1))
                op, idn, mats = None, None, []
                for k in range(m):
                    s_ = sites[i + k]
                    cand = sorted(nm for nm in s_.opnames if not s_.op_needs_JW(nm) and not nm.startswith('JW') and not np.any(s_.get_op(nm).qtotal))
                    nm = cand[int(rng.integers(0, len(cand)))]
                    o = s_.get_op(nm).replace_labels(['p', 'p*'], ['p%d' % k, 'p%d*' % k])
                    e = s_.Id.replace_labels(['p', 'p*'], ['p%d' % k, 'p%d*' % k])
                    mats.append(M.op_matrix(s_, nm))
                    op = o if op is None else npc.outer(op, o)
                    idn = e if idn is None else npc.outer(idn, e)
                if m == 1:
                    op = op.replace_labels(['p0', 'p0*'], ['p', 'p*'])
                    idn = idn.replace_labels(['p0', 'p0*'], ['p', 'p*'])
                op = op + 0.5 * idn
                new = apply(M.dense_op(sites, {i + k: mats[k] for k in range(m)}) + 0.5 * np.eye(int(np.prod(dims))))
                if np.linalg.norm(new) < 1e-6 * np.linalg.norm(ref):
                    continue
                seg.apply_local_op(i, op, unitary=[None, False][int(rng.integers(0, 2))])
                ref = new
                tags.update(n=m)
                check_seg(seg, ref, tags)
            elif kind == 'product_op':
                names, mats = [], {}
                for k, s_ in enumerate(sites):
                    cand = sorted(nm for nm in s_.opnames if not s_.op_needs_JW(nm) and not nm.startswith('JW'))
                    nm = cand[int(rng.integers(0, len(cand)))] if rng.integers(0, 2) else 'Id'
                    names.append(nm)
                    mats[k] = M.op_matrix(s_, nm)
                new = apply(M.dense_op(sites, mats))
                if np.linalg.norm(new) < 1e-6 * np.linalg.norm(ref):
                    continue
                seg.apply_product_op(names, unitary=[None, False][int(rng.integers(0, 2))])
                ref = new
                check_seg(seg, ref, tags)
            elif kind == 'swap':
                i = int(rng.integers(0, n - 1))
                nL, nR = jw_exponents(sites[i]), jw_exponents(sites[i + 1])
                sign = (-1.0) ** np.outer(nL, nR)
                sh = [1] * n
                sh[i], sh[i + 1] = dims[i], dims[i + 1]
                t = ref.reshape([EL] + dims + [ER]) * sign.reshape([1] + sh + [1])
                ref = np.swapaxes(t, 1 + i, 2 + i).reshape(EL, D, ER)
                seg.swap_sites(i, 'auto')
                tags.update(fermionic=fermionic)
                check_seg(seg, ref, tags)
            elif kind == 'canonical':
                seg.canonical_form(renormalize=False)
                check_seg(seg, ref, tags)
            elif kind == 'convert':
                r2 = np.random.default_rng(arg)
                seg.convert_form([['A', 'B', 'C', 'G', 'Th'][int(k)] for k in r2.integers(0, 5, size=n)])
                check_seg(seg, ref, tags, canonical=False)
            elif kind == 'compress':
                seg.compress_svd({'chi_max': 4096, 'svd_min': 1e-14})
                check_seg(seg, ref, tags)
            elif kind == 'copy':
                other = seg.copy()
                other.apply_local_op(0, 'Id', unitary=False)
                other.canonical_form()
                check_seg(seg, ref, tags)
                seg = other if arg % 2 else seg
                if arg % 2:
                    # the canonicalised copy was renormalised (documented default renormalize=True keeps psi.norm)
                    check_seg(seg, ref, tags)
            elif kind == 'gauge':
                seg.gauge_total_charge()
                check_seg(seg, ref, tags)
            done.append(kind)
    return {'nontrivial': len(done) >= 1 and max(seg.chi) >= 2, 'classes': ['seg:' + d for d in set(done)] + (['fermionic'] if fermionic else []) +
            ['cut:%s' % ('both' if first > 0 and last < Lp - 1 else 'one-sided')]}


SUBCHECKS = [
    Sub('segment', seg_specs, run_seg, quick=500, thorough=20000),
    Sub('histories', hist_specs, run_hist, quick=1200, thorough=60000),
    Sub('infinite', inf_specs, run_inf, quick=250, thorough=10000),
]
