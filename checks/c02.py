"""C02 - Charge rule and storage invariants are closed under every operation."""
from vf.core import Sub
from vf import npcprog, inv

LEVEL = 'exploration'
RULE = ('Generated operation histories (up to 14 public np_conserved ops, in-place methods / shallow copies / element '
        'assignment over-weighted) at optimisation level 0; after EVERY step every live tensor is checked by (a) the '
        "library's own test_sanity() and (b) an independent checker (vf/inv.py): _qdata intp/C-contiguous/right shape/in "
        'range/no duplicate row, charge rule per block, block shapes+dtypes, _qdata_sorted / leg.sorted / leg.bunched '
        'flags truthful, qtotal reduced, labels unique, pipes consistent; plus qtotal of every result equals the documented '
        'function of the operands. Non-trivial: history of >= 3 executed steps containing a flag-affecting op followed by '
        'a flag-trusting op on multi-block tensors. Distinct = distinct canonical JSON spec. cy and py kernels.')
ASSUMPTIONS = ['invariants as documented in doc/intro/npc.rst and the Array/LegCharge class docs']

FLAG_AFFECTING = {'transpose', 'permute', 'setitem', 'concatenate', 'grid_concat', 'iproject', 'sort_legcharge', 'trace', 'getitem',
                  'gauge', 'extend', 'conj', 'combine', 'split', 'add_leg', 'charge_ops', 'purge'}
FLAG_TRUSTING = {'add', 'tensordot', 'inner', 'sort_legcharge', 'combine', 'completely_blocked', 'eq', 'outer', 'split'}

WEIGHTS = {'transpose': 6, 'setitem': 5, 'iproject': 4, 'permute': 3, 'concatenate': 3, 'grid_concat': 2, 'add': 6, 'copy': 2,
           'sort_legcharge': 3, 'conj': 3, 'gauge': 2, 'extend': 2, 'purge': 2, 'charge_ops': 2, 'labels': 1, 'norm': 0, 'eq': 1}


def strategy(tier):
    return npcprog.program_specs(tier, max_ops=14, weights=WEIGHTS)


def run(spec):
    inv.set_level0()
    it = npcprog.Interp(spec, check_dense=True, check_inv=True)
    it.lenient_dtype = True
    it.run()
    ops = it.ops_done
    nontrivial = False
    if len(ops) >= 3 and it.nontrivial_ops > 0:
        for i, o in enumerate(ops):
            if o in FLAG_AFFECTING and any(p in FLAG_TRUSTING for p in ops[i + 1:]):
                nontrivial = True
                break
    return {'nontrivial': nontrivial, 'classes': sorted(it.classes) + ['op:' + o for o in set(ops)]}


SUBCHECKS = [Sub('histories', strategy, run, quick=2400, thorough=80000, configs=('cy', 'py'))]
