"""C16 - Krylov solvers return Ritz data of the operator they are given."""
import warnings

import numpy as np
import scipy.linalg
from hypothesis import strategies as st

from vf.core import Sub, Violation, require, Skip
from vf import gen

LEVEL = 'exploration'
RULE = ('Generated block-sparse operators on one or two legs (0-2 charges, unsorted / duplicate blocks, total dimension 1-40) built '
        'from a chosen spectrum per charge sector (degenerate extremal eigenvalues, gaps >= 1e-2) and random block unitaries; general '
        '(non-Hermitian) matrices for Arnoldi / GMRES; start vectors in a random sector; options N_min, N_max, N_cache, reortho, '
        'E_shift, cutoff, P_tol, which, num_ev; real / imaginary / complex exponents. Oracle: dense numpy/scipy (eigvalsh, expm, '
        'solve) on the sector, Rayleigh quotient and norm of the returned vectors, metamorphic relations (N_cache, E_shift), dense '
        'definitions of the wrapper operators. Non-trivial: sector dimension >= 3 and >= 2 Krylov steps performed (for '
        'cache-invariance: N_cache + 1 < N, i.e. the Krylov basis actually had to be rebuilt). Distinct = distinct canonical JSON spec.')
ASSUMPTIONS = ['np_conserved tensor algebra validated by C01-C05']


# ------------------------------------------------------------------------------------------------
# generators

@st.composite
def op_specs(draw, tier, hermitian=True, max_dim=40, two_legs=True):
    mod = draw(gen.chinfo_specs(2))['mod']
    nlegs = draw(st.sampled_from([1, 1, 2])) if two_legs else 1
    legs = [draw(gen.leg_specs(mod, max_blocks=4 if nlegs == 1 else 3, max_size=6 if nlegs == 1 else 3)) for _ in range(nlegs)]
    return {'mod': mod, 'legs': legs, 'seed': draw(st.integers(0, 2 ** 20)), 'hermitian': hermitian,
            'cplx': draw(st.booleans()), 'spectrum': draw(st.sampled_from(['generic', 'degenerate-bottom', 'degenerate-top', 'integer', 'wide'])),
            'sector': draw(st.integers(0, 50))}


@st.composite
def lanczos_specs(draw, tier):
    op = draw(op_specs(tier))
    N_max = draw(st.sampled_from([2, 3, 4, 6, 10, 20, 45]))
    return {'op': op, 'N_max': N_max, 'N_min': draw(st.integers(2, max(2, min(N_max, 8)))),
            'N_cache': draw(st.sampled_from([None, 2, 2, 3, 4, 7])), 'reortho': draw(st.booleans()),
            'E_shift': draw(st.sampled_from([None, None, -3.5, 2.25, -40.0])), 'P_tol': draw(st.sampled_from([1e-14, 1e-14, 1e-30, 1e-6])),
            'ortho': draw(st.sampled_from([0, 0, 1, 2])), 'psi_scale': draw(st.sampled_from([1.0, 1.0, 3.0, 0.01])),
            'delta': draw(st.sampled_from([[0, -0.3], [0, 1.0], [-0.5, 0], [0.2, 0], [-0.1, 0.7]])),
            'normalize': draw(st.sampled_from([None, None, True, False]))}


@st.composite
def arnoldi_specs(draw, tier):
    op = draw(op_specs(tier, hermitian=False, max_dim=20))
    return {'op': op, 'N_max': draw(st.sampled_from([3, 5, 8, 30])), 'which': draw(st.sampled_from(['LM', 'LR', 'SR'])),
            'num_ev': draw(st.integers(1, 3)), 'delta': draw(st.sampled_from([[0, -0.3], [-0.5, 0], [0.2, 0.1]])),
            'normalize': draw(st.sampled_from([None, True, False])), 'psi_scale': draw(st.sampled_from([1.0, 2.0])),
            'E_shift': draw(st.sampled_from([None, None, 1.5]))}


@st.composite
def misc_specs(draw, tier):
    op = draw(op_specs(tier, hermitian=draw(st.booleans())))
    return {'op': op, 'nvec': draw(st.integers(1, 6)), 'eps': draw(st.sampled_from([1.0, 1.0, 1e-3, 1e-6])),
            'dependent': draw(st.integers(0, 2)), 'N_max': draw(st.sampled_from([3, 6, 12, 45])), 'restart': draw(st.integers(1, 4)),
            'res': draw(st.sampled_from([1e-8, 1e-4, 1e-12])), 'x0': draw(st.sampled_from(['zero', 'random'])),
            'shift': draw(st.sampled_from([0.75, -2.0, [0.3, 0.4]])), 'compact': draw(st.sampled_from([None, True, False])),
            'sector_none': draw(st.booleans())}


# ------------------------------------------------------------------------------------------------
# builders

class Op:
    """Dense matrix + npc operator acting on vectors with legs `legs` (labels v0, v1)."""

    def __init__(self, spec):
        from tenpy.linalg import np_conserved as npc
        self.npc = npc
        self.chinfo = gen.build_chinfo({'mod': spec['mod']})
        self.legs = [gen.build_leg(self.chinfo, l) for l in spec['legs']]
        self.labels = ['v%d' % k for k in range(len(self.legs))]
        shape = [l.ind_len for l in self.legs]
        self.shape = shape
        self.n = int(np.prod(shape))
        if self.n < 1:
            raise Skip()
        rng = np.random.default_rng(spec['seed'])
        qn = len(spec['mod'])
        # signed charge of every flat index of the vector
        q = np.zeros(shape + [qn], dtype=np.int64)
        for k, l in enumerate(self.legs):
            ql = gen.leg_qflat_signed(l)
            sh = [1] * len(shape) + [qn]
            sh[k] = shape[k]
            q = q + ql.reshape(sh)
        q = q.reshape(self.n, qn)
        for c, m in enumerate(spec['mod']):
            if m != 1:
                q[:, c] %= m
        self.q = q
        sectors = sorted(set(map(tuple, q)))
        self.sectors = sectors
        cplx = spec['cplx']
        self.dtype = np.complex128 if cplx else np.float64
        H = np.zeros((self.n, self.n), dtype=self.dtype)
        self.sector_idx = {}
        for s in sectors:
            idx = np.nonzero(np.all(q == np.array(s, dtype=np.int64).reshape(1, qn), axis=1))[0] if qn else np.arange(self.n)
            self.sector_idx[s] = idx
            m = len(idx)
            if spec['hermitian']:
                kind = spec['spectrum']
                if kind == 'integer':
                    ev = rng.integers(-3, 4, size=m).astype(float)
                elif kind == 'wide':
                    ev = np.sort(rng.normal(size=m)) * 10 ** rng.uniform(0, 2)
                else:
                    ev = np.cumsum(rng.uniform(0.05, 1.0, size=m)) - rng.uniform(0, 3)
                    if kind == 'degenerate-bottom' and m >= 2:
                        ev[1] = ev[0]
                    if kind == 'degenerate-top' and m >= 2:
                        ev[-2] = ev[-1]
                A = rng.normal(size=(m, m)) + (1j * rng.normal(size=(m, m)) if cplx else 0)
                Q, _ = np.linalg.qr(A)
                blk = (Q * ev[None, :]) @ Q.conj().T
                blk = (blk + blk.conj().T) / 2
            else:
                blk = rng.normal(size=(m, m)) + (1j * rng.normal(size=(m, m)) if cplx else 0)
                blk = blk / max(1., np.sqrt(m)) + np.diag(np.cumsum(rng.uniform(0.1, 1., size=m)) * rng.choice([-1, 1]))
            H[np.ix_(idx, idx)] = blk
        self.H = H
        op_legs = self.legs + [l.conj() for l in self.legs]
        self.T = npc.Array.from_ndarray(H.reshape(shape + shape), op_legs, dtype=self.dtype, labels=self.labels + [l + '*' for l in self.labels], cutoff=0.)
        self.rng = rng
        self.sector = sectors[spec['sector'] % len(sectors)]
        self.idx = self.sector_idx[self.sector]
        self.Hs = H[np.ix_(self.idx, self.idx)]

    def vec(self, scale=1.0, cplx=None, dense=None):
        """random vector in the chosen sector -> (npc Array, dense flat)."""
        npc = self.npc
        cplx = self.dtype == np.complex128 if cplx is None else cplx
        if dense is None:
            v = np.zeros(self.n, dtype=np.complex128 if cplx else np.float64)
            v[self.idx] = self.rng.normal(size=len(self.idx)) + (1j * self.rng.normal(size=len(self.idx)) if cplx else 0)
            v = v / np.linalg.norm(v) * scale
        else:
            v = dense
        a = npc.Array.from_ndarray(v.reshape(self.shape), self.legs, dtype=v.dtype, qtotal=list(self.sector), labels=self.labels, cutoff=0.)
        return a, v

    def dense_of(self, a):
        a = a.copy()
        a.itranspose(self.labels)
        return a.to_ndarray().reshape(self.n)


class NpcOp:
    """minimal NpcLinearOperator-like: only `matvec` (documented as all that is required)."""

    def __init__(self, op):
        self.op = op
        self.dtype = op.dtype
        self.count = 0

    def matvec(self, vec):
        npc = self.op.npc
        self.count += 1
        labels = self.op.labels
        res = npc.tensordot(self.op.T, vec, axes=[[l + '*' for l in labels], labels])
        res.itranspose(vec.get_leg_labels())
        return res

    def to_matrix(self):
        # pipes with the default `qconj` (the one of the first combined leg), as for a combined vector `o.combine_legs(labels)`
        return self.op.T.combine_legs([self.op.labels, [l + '*' for l in self.op.labels]])

    def adjoint(self):
        raise NotImplementedError()


def rayleigh(H, v):
    return np.vdot(v, H @ v) / np.vdot(v, v)


# ------------------------------------------------------------------------------------------------
# Lanczos

def run_lanczos(spec):
    from tenpy.linalg import krylov_based as kb
    from tenpy.linalg.sparse import OrthogonalNpcLinearOperator
    with warnings.catch_warnings():
        warnings.simplefilter('ignore')
        op = Op(spec['op'])
        m = len(op.idx)
        H = op.H
        scale = max(1., np.linalg.norm(op.Hs, 2))
        psi0, v0 = op.vec(spec['psi_scale'])
        N_max = spec['N_max']
        opts = {'N_min': spec['N_min'], 'N_max': N_max, 'reortho': spec['reortho'], 'P_tol': spec['P_tol']}
        # if the Krylov space is exhausted before N_max (dimension of the sector, or number of distinct eigenvalues), the iteration
        # has to stop by the breakdown threshold `cutoff` (documented as necessary in this case); its default is absolute
        # (100 eps): give it relative to the scale of the operator, and never ask for more steps than the dimension
        opts['cutoff'] = 1e-7 * scale
        N_max = opts['N_max'] = max(2, min(N_max, m))
        opts['N_min'] = min(opts['N_min'], N_max)
        if spec['N_cache'] is not None:
            opts['N_cache'] = spec['N_cache']
        if spec['E_shift'] is not None:
            opts['E_shift'] = spec['E_shift']
        tags = dict(reortho=spec['reortho'], shift=spec['E_shift'] is not None, cache=spec['N_cache'] is not None, ortho=spec['ortho'] > 0)
        shift = spec['E_shift'] or 0.
        # orthogonal projection
        Hd = H
        lin = NpcOp(op)
        P = np.eye(op.n)
        if spec['ortho']:
            ovs, ods = [], []
            for _ in range(spec['ortho']):
                a, d = op.vec(1.0)
                ovs.append(a)
                ods.append(d)
            lin = OrthogonalNpcLinearOperator(lin, ovs)
            Q, _ = np.linalg.qr(np.array(ods).T)
            P = np.eye(op.n) - Q @ Q.conj().T
            if np.linalg.norm(P @ v0) < 1e-6:
                raise Skip()
            Hd = P @ H @ P
            # wrapper definition: matvec equals dense P H P
            w = lin.matvec(psi0)
            require(np.linalg.norm(op.dense_of(w) - Hd @ v0) <= 1e-10 * scale * np.linalg.norm(v0), 'orthogonal-matvec', 'P H P v differs from the dense definition', **tags)
        v0_before = v0.copy()
        E0, psi, N = kb.LanczosGroundState(lin, psi0, dict(opts)).run()
        require(np.array_equal(op.dense_of(psi0), v0_before), 'start-vector-modified', 'run() changed the psi0 passed by the caller', **tags)
        pv = op.dense_of(psi)
        require(abs(np.linalg.norm(pv) - 1.) <= 1e-10, 'not-normalized', '|psi| = %r' % np.linalg.norm(pv), **tags)
        require(np.linalg.norm(np.delete(pv, op.idx)) <= 1e-12, 'left-sector', '', **tags)
        # operator actually iterated: P (H + shift) P ; documented: returned E0 is made independent of the shift
        Heff = P @ (H + shift * np.eye(op.n)) @ P if spec['ortho'] else H + shift * np.eye(op.n)
        rq = rayleigh(Heff, pv).real - shift
        loose = 1e-7 if not spec['reortho'] else 1e-9
        tol = loose * (scale + abs(shift)) * max(1, N)
        if N > 1:
            require(abs(E0 - rq) <= tol, 'E0-not-rayleigh-quotient', 'E0 = %r but <psi|H|psi> = %r (N = %d, N_cache = %r, E_shift = %r)' % (E0, rq, N, spec['N_cache'], spec['E_shift']), **tags)
        Heff_s = Heff[np.ix_(op.idx, op.idx)]
        lam = np.linalg.eigvalsh((Heff_s + Heff_s.conj().T) / 2)
        lam_min = lam[0] - shift
        require(E0 >= lam_min - tol, 'below-smallest-eigenvalue', 'E0 = %r < lambda_min = %r' % (E0, lam_min), **tags)
        full = False
        if N_max >= m and spec['reortho'] and spec['N_cache'] is None and (opts['N_min'] >= N_max or spec['P_tol'] <= 1e-30) and not spec['ortho'] and m >= 1 \
                and spec['op']['spectrum'] not in ('integer', 'wide'):
            # Krylov dimension reaches the dimension of the space: exact (the random start vector overlaps with every eigenvector)
            full = True
            require(abs(E0 - lam_min) <= 1e-8 * (scale + abs(shift)), 'full-dimension-not-exact', 'E0 = %r, lambda_min = %r, N = %d, dim = %d' % (E0, lam_min, N, m), **tags)
        require(1 <= N <= N_max, 'N-range', 'N = %r' % N, **tags)
        rebuilt = False
        # metamorphic: N_cache
        # (with reortho, a smaller cache re-orthogonalizes against fewer vectors (documented): a numerically different algorithm)
        if spec['N_cache'] is not None and N > 1 and not spec['reortho']:
            o2 = dict(opts)
            del o2['N_cache']
            lin2 = NpcOp(op) if not spec['ortho'] else OrthogonalNpcLinearOperator(NpcOp(op), [op.vec(dense=d)[0] for d in ods])
            E2, psi2, N2 = kb.LanczosGroundState(lin2, psi0, o2).run()
            # with reortho, a smaller cache re-orthogonalizes against fewer vectors (documented): same result only up to rounding,
            # which can move the convergence test by one step
            same = (N2 == N) if not spec['reortho'] else True
            require(same and abs(E2 - E0) <= (1e-10 if N2 == N else 1e-7) * (scale + abs(shift)), 'N_cache-changes-E0', 'E0 %r vs %r, N %d vs %d' % (E0, E2, N, N2), **tags)
            if N2 == N:
                ov = abs(np.vdot(op.dense_of(psi2), pv))
                require(ov >= 1 - max(loose, 1e-8) * N, 'N_cache-changes-psi', '|<psi(N_cache=%d)|psi(all cached)>| = %r, N = %d' % (spec['N_cache'], ov, N), **tags)
            rebuilt = N > spec['N_cache'] + 1
        # metamorphic: E_shift
        if spec['E_shift'] is not None and N > 1:
            o3 = dict(opts)
            del o3['E_shift']
            lin3 = NpcOp(op) if not spec['ortho'] else OrthogonalNpcLinearOperator(NpcOp(op), [op.vec(dense=d)[0] for d in ods])
            E3, psi3, N3 = kb.LanczosGroundState(lin3, psi0, o3).run()
            if N3 == N and not spec['ortho']:
                # same Krylov space: identical Ritz data
                require(abs(E3 - E0) <= 1e-7 * (scale + abs(shift)) * N, 'E_shift-changes-E0', 'E0 %r (shift %r) vs %r (no shift), N = %d' % (E0, shift, E3, N), **tags)
        # evolution
        d = complex(*spec['delta'])
        if d.imag == 0:
            d = d.real
        evo = kb.LanczosEvolution(NpcOp(op), psi0, {k: v for k, v in opts.items() if k != 'P_tol'})
        res, Ne = evo.run(d, normalize=spec['normalize'])
        rv = op.dense_of(res)
        normalize = spec['normalize'] if spec['normalize'] is not None else (np.real(d) == 0.)
        n0 = np.linalg.norm(v0)
        if normalize:
            require(abs(np.linalg.norm(rv) - 1.) <= 1e-10, 'evolution-not-normalized', '|res| = %r' % np.linalg.norm(rv), delta=str(d), **tags)
        elif np.real(d) == 0.:
            require(abs(np.linalg.norm(rv) - n0) <= 1e-9 * n0 * max(1, Ne), 'evolution-norm-not-preserved', '|res| = %r, |psi0| = %r' % (np.linalg.norm(rv), n0), delta=str(d), **tags)
        require(np.linalg.norm(np.delete(rv, op.idx)) <= 1e-12 * max(1., np.linalg.norm(rv)), 'left-sector', '', **tags)
        if N_max >= m and spec['reortho'] and spec['N_cache'] is None:
            exact = scipy.linalg.expm(d * (H + shift * np.eye(op.n))) @ v0
            if normalize:
                exact = exact / np.linalg.norm(exact)
            err = np.linalg.norm(rv - exact) / np.linalg.norm(exact)
            require(err <= 1e-7 * max(1., abs(d) * (scale + abs(shift))), 'evolution-full-dimension', 'relative error %r vs expm at full Krylov dimension (N = %d, dim = %d, E_shift = %r)' % (err, Ne, m, spec['E_shift']), delta=str(d), **tags)
    cls = ['lanczos', 'N=%d' % min(N, 10), 'reortho' if spec['reortho'] else 'no-reortho']
    if rebuilt:
        cls.append('krylov-rebuilt')
    if full:
        cls.append('full-dimension')
    if spec['E_shift'] is not None:
        cls.append('E_shift')
    if spec['ortho']:
        cls.append('orthogonal')
    if len(op.legs) > 1:
        cls.append('two-legs')
    return {'nontrivial': m >= 3 and N >= 2, 'classes': cls}


# ------------------------------------------------------------------------------------------------
# Arnoldi

def run_arnoldi(spec):
    from tenpy.linalg import krylov_based as kb
    with warnings.catch_warnings():
        warnings.simplefilter('ignore')
        op = Op(spec['op'])
        m = len(op.idx)
        A = op.Hs
        scale = max(1., np.linalg.norm(A, 2))
        psi0, v0 = op.vec(spec['psi_scale'], cplx=True)
        N_max = max(2, min(spec['N_max'], m))  # never more steps than the dimension: see run_lanczos
        which, num_ev = spec['which'], min(spec['num_ev'], N_max - 1)  # the gap estimate needs one more Ritz value than num_ev
        tags = dict(which=which)
        shift = spec['E_shift'] or 0.
        opts = {'N_max': N_max, 'N_min': min(N_max, max(2, m)), 'which': which, 'num_ev': num_ev, 'P_tol': 1e-30}
        if N_max >= m:
            opts['cutoff'] = 1e-7 * scale  # see run_lanczos
        if spec['E_shift'] is not None:
            opts['E_shift'] = spec['E_shift']
        Es, psis, N = kb.Arnoldi(NpcOp(op), psi0, opts).run()
        require(len(psis) == min(N, num_ev) or N == 1, 'arnoldi-count', '%d vectors for N = %d, num_ev = %d' % (len(psis), N, num_ev), **tags)
        k = len(psis)
        Es = np.asarray(Es)[:k]
        key = {'LM': lambda e: -np.abs(e + shift), 'LR': lambda e: -np.real(e), 'SR': lambda e: np.real(e)}[which]
        ks = [key(e) for e in Es]
        require(all(ks[i] <= ks[i + 1] + 1e-9 * scale for i in range(k - 1)), 'arnoldi-order', 'Ritz values %r not ordered by %s' % (Es, which), **tags)
        for e, p in zip(Es, psis):
            pv = op.dense_of(p)
            require(abs(np.linalg.norm(pv) - 1.) <= 1e-9, 'not-normalized', '', **tags)
            require(np.linalg.norm(np.delete(pv, op.idx)) <= 1e-12, 'left-sector', '', **tags)
        full = N >= m and N_max >= m
        if full and N > 1:
            true = np.linalg.eigvals(A)
            order = np.argsort([key(e) for e in true], kind='stable')  # `key` already accounts for the shift
            # eigenvalue conditioning of the random non-normal block
            w, V = np.linalg.eig(A)
            cond = np.linalg.cond(V)
            tol = 1e-9 * cond * scale * m
            for e, p in zip(Es, psis):
                pv = op.dense_of(p)
                r = np.linalg.norm(op.H @ pv - e * pv)
                require(r <= max(tol, 1e-7 * scale), 'arnoldi-residual', '|A psi - E psi| = %r at full Krylov dimension (N = %d, dim = %d, E = %r)' % (r, N, m, e), **tags)
            # the requested extremal eigenvalue
            best = true[order[0]]
            gaps = abs(key(true[order[0]]) - key(true[order[1]])) if m > 1 else 1.
            if gaps > 1e-3 * scale:
                require(abs(Es[0] - best) <= max(tol, 1e-7 * scale), 'arnoldi-extremal', 'first Ritz value %r, requested (%s) eigenvalue %r' % (Es[0], which, best), **tags)
        # evolution
        d = complex(*spec['delta'])
        evo = kb.ArnoldiEvolution(NpcOp(op), psi0, dict({'N_max': N_max, 'N_min': min(N_max, max(2, m)), 'P_tol': 1e-30}, **({'cutoff': 1e-7 * scale} if N_max >= m else {})))
        res, Ne = evo.run(d, normalize=spec['normalize'])
        rv = op.dense_of(res)
        normalize = bool(spec['normalize'])
        if normalize:
            require(abs(np.linalg.norm(rv) - 1.) <= 1e-9, 'evolution-not-normalized', '', **tags)
        if N_max >= m:
            exact = scipy.linalg.expm(d * op.H) @ v0
            if normalize:
                exact = exact / np.linalg.norm(exact)
            w, V = np.linalg.eig(A)
            cond = np.linalg.cond(V)
            err = np.linalg.norm(rv - exact) / np.linalg.norm(exact)
            require(err <= 1e-9 * cond * m * max(1., np.exp(abs(d) * scale)), 'arnoldi-evolution-full-dimension', 'relative error %r vs expm (N = %d, dim = %d)' % (err, Ne, m), **tags)
            # second call of run() on the same object (documented to clear its state)
            res2, _ = evo.run(d / 2, normalize=spec['normalize'])
            exact2 = scipy.linalg.expm(d / 2 * op.H) @ v0
            if normalize:
                exact2 = exact2 / np.linalg.norm(exact2)
            err2 = np.linalg.norm(op.dense_of(res2) - exact2) / np.linalg.norm(exact2)
            require(err2 <= 1e-9 * cond * m * max(1., np.exp(abs(d) * scale)), 'arnoldi-evolution-second-run', 'relative error %r on the second run()' % err2, **tags)
    return {'nontrivial': m >= 3 and N >= 2, 'classes': ['arnoldi', 'which:' + which, 'full' if full else 'partial', 'num_ev=%d' % num_ev]}


# ------------------------------------------------------------------------------------------------
# gram_schmidt, GMRES, wrappers, FlatLinearOperator

def run_misc(spec):
    from tenpy.linalg import krylov_based as kb
    from tenpy.linalg import sparse
    from tenpy.linalg import np_conserved as npc
    with warnings.catch_warnings():
        warnings.simplefilter('ignore')
        op = Op(spec['op'])
        m = len(op.idx)
        scale = max(1., np.linalg.norm(op.Hs, 2))
        rng = op.rng
        classes = []
        # --- gram_schmidt
        nvec = min(spec['nvec'], m)
        base = [op.vec(1.0)[1] for _ in range(nvec)]
        eps = spec['eps']
        dense = [base[0]]
        for b in base[1:]:
            d = base[0] + eps * b  # nearly parallel to the first for small eps
            dense.append(d / np.linalg.norm(d))
        rank = len(dense)
        for _ in range(spec['dependent']):
            if len(dense) >= 2:
                c = rng.integers(1, 3, size=2)
                d = c[0] * dense[0] + c[1] * dense[-1]
                dense.insert(int(rng.integers(1, len(dense) + 1)), d / np.linalg.norm(d))
        inputs = [op.vec(dense=d.copy())[0] for d in dense]
        out = kb.gram_schmidt(inputs)
        O = np.array([op.dense_of(o) for o in out]).reshape(len(out), op.n)
        G = O.conj() @ O.T
        # conditioning of the inputs: modified Gram-Schmidt loses orthogonality ~ eps_machine * sigma_1 / sigma_k
        sv = np.linalg.svd(np.array(dense).reshape(len(dense), op.n), compute_uv=False)
        k = len(out)
        if k == 0 or k > len(sv):
            require(k <= len(sv), 'gram_schmidt-rank', '%d vectors returned for %d inputs' % (k, len(sv)), eps=eps)
        sk = sv[k - 1] if 0 < k <= len(sv) else sv[-1]
        if sk < 1e-9 * sv[0]:
            raise Skip()  # the rank decision itself is at the rounding level for this (randomly ill-conditioned) input
        cond = sv[0] / sk
        tol_g = 1e-14 * cond * 50 * max(1, k)
        require(np.linalg.norm(G - np.eye(k)) <= max(tol_g, 1e-12), 'gram_schmidt-not-orthonormal', '|G - 1| = %r for %d vectors (condition number of the inputs %.1e)' % (np.linalg.norm(G - np.eye(k)), k, cond), eps=eps)
        num_rank = int(np.sum(sv > 1e-9 * sv[0]))
        require(k == num_rank or (k < len(sv) and sv[k] > 1e-13 * sv[0]), 'gram_schmidt-rank', '%d vectors returned, numerical rank %d (singular values %r)' % (k, num_rank, sv), eps=eps)
        # span: every input lies in the span of the output (up to the conditioning)
        for d in dense:
            r = d - O.T @ (O.conj() @ d)
            require(np.linalg.norm(r) <= max(1e-13 * cond * 50, 1e-10), 'gram_schmidt-span', 'input not in the span of the result: residual %r' % np.linalg.norm(r), eps=eps)
        classes.append('gram_schmidt:%d' % len(out))
        # --- wrappers
        lin = NpcOp(op)
        x, xd = op.vec(1.0)
        s = spec['shift']
        s = complex(*s) if isinstance(s, list) else s
        if isinstance(s, complex) and op.dtype != np.complex128:
            s = s.real
        sh = sparse.ShiftNpcLinearOperator(lin, s)
        require(np.linalg.norm(op.dense_of(sh.matvec(x)) - (op.H @ xd + s * xd)) <= 1e-11 * (scale + abs(s)), 'shift-matvec', '', wrapper='shift')
        Mx = sh.to_matrix().to_ndarray()
        pipe = sh.to_matrix().get_leg(0)
        require(np.linalg.norm(op.dense_of(x) - xd) == 0, 'matvec-modified-argument', 'ShiftNpcLinearOperator.matvec changed its argument', wrapper='shift')
        su = sparse.SumNpcLinearOperator(lin, sh)
        require(np.linalg.norm(op.dense_of(su.matvec(x)) - (2 * op.H @ xd + s * xd)) <= 1e-11 * (scale + abs(s)), 'sum-matvec', '', wrapper='sum')
        # to_matrix in the basis of the pipe
        if len(op.legs) == 1:
            pos = np.array([pipe.map_incoming_flat([i]) for i in range(op.n)]) if hasattr(pipe, 'map_incoming_flat') else np.arange(op.n)
        else:
            pos = np.array([pipe.map_incoming_flat(list(np.unravel_index(i, op.shape))) for i in range(op.n)])
        require(np.linalg.norm(Mx[np.ix_(pos, pos)] - (op.H + s * np.eye(op.n))) <= 1e-11 * (scale + abs(s)), 'shift-to_matrix', '', wrapper='shift')
        Ms = su.to_matrix().to_ndarray()
        require(np.linalg.norm(Ms[np.ix_(pos, pos)] - (2 * op.H + s * np.eye(op.n))) <= 1e-11 * (scale + abs(s)), 'sum-to_matrix', '', wrapper='sum')
        ov, od = op.vec(1.0)
        ort = sparse.OrthogonalNpcLinearOperator(lin, [ov])
        Pm = np.eye(op.n) - np.outer(od, od.conj())
        require(np.linalg.norm(op.dense_of(ort.matvec(x)) - Pm @ op.H @ Pm @ xd) <= 1e-7 * scale, 'orthogonal-matvec', '', wrapper='orthogonal')
        Mo = ort.to_matrix().to_ndarray()
        require(np.linalg.norm(Mo[np.ix_(pos, pos)] - Pm @ op.H @ Pm) <= 1e-7 * scale, 'orthogonal-to_matrix', '', wrapper='orthogonal')
        classes.append('wrappers')
        # --- GMRES (general, well conditioned operator A = H + c with c outside of the spectrum)
        Hs = op.Hs
        ev = np.linalg.eigvals(Hs)
        c = float(np.max(np.abs(ev))) * 1.5 + 1.
        A = sparse.ShiftNpcLinearOperator(lin, c)
        Ad = op.H + c * np.eye(op.n)
        b, bd = op.vec(2.0, cplx=True)
        if spec['x0'] == 'zero':
            x0d = np.zeros(op.n, dtype=complex)
            x0 = npc.zeros(op.legs, dtype=np.complex128, qtotal=list(op.sector), labels=op.labels)
        else:
            x0, x0d = op.vec(1.0, cplx=True)
        # N_min below the dimension: continuing the Arnoldi iteration after an exact breakdown is outside of the sound domain
        ndist = len(set(np.round(ev / scale, 7)))  # dimension of the Krylov space of a generic vector (A diagonalizable)
        g = kb.GMRES(A, x0, b, {'N_min': max(0, min(2, spec['N_max'], ndist - 1)), 'N_max': spec['N_max'], 'restart': spec['restart'], 'res': spec['res']})
        xs, res, tot_err, iters = g.run()
        xsd = op.dense_of(xs)
        true_res = np.linalg.norm(Ad @ xsd - bd) / np.linalg.norm(bd)
        require(abs(res - true_res) <= 1e-10 * max(1., true_res) + 1e-12, 'gmres-reported-residual', 'reported %r, recomputed %r' % (res, true_res))
        r0 = np.linalg.norm(Ad @ x0d - bd) / np.linalg.norm(bd)
        require(true_res <= r0 * (1 + 1e-9) + 1e-12, 'gmres-residual-increased', 'initial %r, final %r' % (r0, true_res))
        if spec['N_max'] >= m:
            require(true_res <= max(spec['res'], 1e-9) * 10, 'gmres-not-converged', 'residual %r at Krylov dimension >= dim = %d' % (true_res, m))
        classes.append('gmres')
        # --- FlatLinearOperator
        # FlatLinearOperator: `charge_sector` is compared with the raw charges of `leg` and used as qtotal: consistent for
        # qconj = +1 only, which is what every caller in the package (transfer matrices, from_guess_with_pipe) passes
        if len(op.legs) == 1 and op.legs[0].qconj == +1:
            mat = op.T  # legs [leg, leg.conj()]
            if any(mat.get_leg(0).to_qflat().shape[0] and True for _ in [0]):
                leg = op.legs[0]
                # all sectors at once: callers (transfer matrices) only use sorted and blocked legs (pipes); implicit precondition
                sector = None if (spec['sector_none'] and leg.is_blocked() and leg.is_sorted()) else [int(v) for v in (np.array(op.sector) * 1)]
                compact = spec['compact']
                if compact and (not leg.is_blocked() or sector is None):
                    compact = None  # documented: compact_flat needs a blocked leg and a fixed sector
                # charge_sector refers to the charges of the vector = qtotal for a vector with leg `leg`
                try:
                    flat = sparse.FlatLinearOperator.from_NpcArray(mat, charge_sector=sector, compact_flat=compact)
                except ValueError as e:
                    if 'blocked' in str(e):
                        flat = None
                    else:
                        raise
                if flat is not None:
                    k = flat.shape[1]
                    fv = rng.normal(size=k) + (1j * rng.normal(size=k) if op.dtype == np.complex128 else 0)
                    a = flat.flat_to_npc(fv)
                    back = flat.npc_to_flat(a)
                    require(np.array_equal(back, fv), 'flat-roundtrip', 'npc_to_flat(flat_to_npc(v)) != v', sector=sector is not None)
                    ad = a.to_ndarray()
                    if sector is not None:
                        require(np.linalg.norm(np.delete(ad, op.idx)) == 0, 'flat-sector', 'flat_to_npc produced entries outside of the sector', sector=True)
                    res = flat.matvec(fv)
                    expected = flat.npc_to_flat(npc.Array.from_ndarray(op.H @ ad, [leg], dtype=(op.H @ ad).dtype, qtotal=a.qtotal, cutoff=0.)) if sector is not None else None
                    if sector is not None:
                        require(np.linalg.norm(res - expected) <= 1e-7 * scale * max(1., np.linalg.norm(fv)), 'flat-matvec', '', sector=True)
                    else:
                        # all sectors: flat vector is the dense vector (possibly permuted if compact)
                        ad2 = flat.flat_to_npc(res) if not isinstance(res, npc.Array) else res
                        ad2 = ad2.to_ndarray() if isinstance(ad2, npc.Array) else ad2
                        require(np.linalg.norm(ad2 - op.H @ ad) <= 1e-7 * scale * max(1., np.linalg.norm(fv)), 'flat-matvec', '', sector=False)
                    classes.append('flat:%s' % ('sector' if sector is not None else 'all'))
    return {'nontrivial': m >= 3, 'classes': classes}


SUBCHECKS = [
    Sub('lanczos', lanczos_specs, run_lanczos, quick=1500, thorough=100000),
    Sub('arnoldi', arnoldi_specs, run_arnoldi, quick=700, thorough=50000),
    Sub('misc', misc_specs, run_misc, quick=800, thorough=50000),
]
