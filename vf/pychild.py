"""Persistent child process running the *pure-Python* kernels (TENPY_NO_CYTHON=1) of the staged tree.
Protocol: one JSON request per line on stdin -> one JSON answer per line on stdout."""
import json
import os
import subprocess
import sys


def serve():
    import warnings
    warnings.filterwarnings('ignore')
    import logging
    logging.disable(logging.WARNING)
    from vf import build
    build.assert_tree()
    import importlib
    out = sys.stdout
    sys.stdout = sys.stderr  # keep the protocol channel clean
    out.write(json.dumps({'ready': True}) + '\n')
    out.flush()
    for line in sys.stdin:
        req = json.loads(line)
        try:
            mod = importlib.import_module(req['module'])
            ans = getattr(mod, req['func'])(req['arg'])
        except BaseException as e:  # harness error inside the child
            import traceback
            ans = {'child_error': ''.join(traceback.format_exception(type(e), e, e.__traceback__))[-3000:]}
        from vf.core import _default
        out.write(json.dumps(ans, default=_default) + '\n')
        out.flush()


class PyChild:
    _inst = None

    @classmethod
    def get(cls):
        if cls._inst is None or cls._inst.proc.poll() is not None:
            cls._inst = cls()
        return cls._inst

    def __init__(self):
        from vf import build
        env = build.child_env(os.environ['VF_SCRATCH_TREE'], 'py')
        self.proc = subprocess.Popen([build.PY, '-m', 'vf.pychild'], env=env, cwd=build.VERIF, stdin=subprocess.PIPE,
                                     stdout=subprocess.PIPE, stderr=subprocess.DEVNULL, text=True, bufsize=1)
        hello = json.loads(self.proc.stdout.readline())
        assert hello.get('ready')

    def call(self, module, func, arg):
        from vf.core import _default
        self.proc.stdin.write(json.dumps({'module': module, 'func': func, 'arg': arg}, default=_default) + '\n')
        self.proc.stdin.flush()
        line = self.proc.stdout.readline()
        if not line:
            raise RuntimeError('py child died')
        ans = json.loads(line)
        if isinstance(ans, dict) and 'child_error' in ans:
            raise RuntimeError('harness error in py child: ' + ans['child_error'])
        return ans


if __name__ == '__main__':
    serve()
