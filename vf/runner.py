"""./check <ID> [--tier quick|thorough] [--replay path] [--sub name] [--n N]

Parent process: stages the tree, shards the sub-checks of a property over worker processes, merges
their results, applies the known-findings protocol and writes the evidence file.

exit 0: property held on everything explored (KNOWN-FINDING lines for listed findings)
exit 1: ``VIOLATION property=<id> replay=<path>`` for each unlisted violation signature
exit 2: harness error (build failure, wrong tree, generator health, worker crash)
"""
import argparse
import glob
import hashlib
import importlib
import json
import math
import os
import shutil
import subprocess
import sys
import tempfile
import time

from . import build, core

VERIF = build.VERIF
NPROC = int(os.environ.get('VF_NPROC', '16'))


def derive_seed(*parts):
    h = hashlib.sha256('|'.join(str(p) for p in parts).encode()).digest()
    return int.from_bytes(h[:4], 'big')


def main(argv=None):
    ap = argparse.ArgumentParser()
    ap.add_argument('prop')
    ap.add_argument('--tier', default=os.environ.get('VERIF_TIER', 'quick'), choices=['quick', 'thorough'])
    ap.add_argument('--replay', default=None)
    ap.add_argument('--sub', default=None, help='only this sub-check (development)')
    ap.add_argument('--n', type=int, default=None, help='override number of examples per sub-check')
    ap.add_argument('--no-evidence', action='store_true')
    args = ap.parse_args(argv)
    prop = args.prop.upper()
    seed = int(os.environ.get('VERIF_SEED', '1'))
    t0 = time.time()
    sys.path.insert(0, VERIF)
    try:
        mod = importlib.import_module('checks.' + prop.lower())
    except ImportError as e:
        print('harness error: cannot import check module: %r' % e)
        return 2
    need_cy = any('cy' in s.configs for s in mod.SUBCHECKS)
    try:
        scratch, binfo = build.stage(need_cy=need_cy)
    except build.HarnessError as e:
        print('harness error:', e)
        return 2
    try:
        return _run(args, prop, seed, mod, scratch, binfo, t0)
    finally:
        shutil.rmtree(scratch, ignore_errors=True)


def _run(args, prop, seed, mod, scratch, binfo, t0):
    tier = args.tier
    known = core.load_known()
    subs = [s for s in mod.SUBCHECKS if args.sub in (None, s.name)]
    jobs = []
    # 1. replay tier: committed regression inputs (incl. witnesses of known / fixed findings)
    if args.replay:
        rp = json.load(open(args.replay))
        if isinstance(rp, dict) and 'spec' in rp:
            jobs.append({'property': prop, 'sub': rp['subcheck'], 'config': rp.get('config', 'cy'),
                         'replay': rp['spec'], 'tier': tier, 'kind': 'replay', 'file': args.replay})
        else:
            print('harness error: not a replay file')
            return 2
    else:
        for f in sorted(glob.glob(os.path.join(VERIF, 'replays', prop, '*.json'))):
            rp = json.load(open(f))
            if args.sub not in (None, rp['subcheck']):
                continue
            jobs.append({'property': prop, 'sub': rp['subcheck'], 'config': rp.get('config', 'cy'),
                         'replay': rp['spec'], 'tier': tier, 'kind': 'replay', 'file': f})
        for s in subs:
            n = args.n if args.n is not None else (s.quick if tier == 'quick' else s.thorough)
            if n <= 0:
                continue
            for cfg in s.configs:
                if s.enumerate_fn is not None:
                    nsh = s.max_shards
                    for sh in range(nsh):
                        jobs.append({'property': prop, 'sub': s.name, 'config': cfg, 'tier': tier,
                                     'seed': derive_seed(seed, prop, s.name), 'shard': sh, 'nshards': nsh,
                                     'kind': 'enum'})
                else:
                    nsh = max(1, min(s.max_shards, n // 8))
                    per = int(math.ceil(n / nsh))
                    for sh in range(nsh):
                        jobs.append({'property': prop, 'sub': s.name, 'config': cfg, 'tier': tier,
                                     'seed': derive_seed(seed, prop, s.name, sh), 'n': per, 'shard': sh,
                                     'kind': 'hyp', 'shrink': (tier == 'thorough' or s.shrink_quick)})
    wall_guard = float(os.environ.get('VF_WALL_GUARD', '1500' if tier == 'quick' else '14400'))
    results = _run_jobs(jobs, scratch, t0 + wall_guard)
    # ------------------------------------------------------------------ merge
    evals = 0
    discarded = 0
    nontrivial = set()
    classes = {}
    samples = []
    per_sub = {}
    violations = {}  # sigkey -> entry
    known_hits = {}
    harness = []
    budget_exhausted = False
    for job, out in results:
        if out is None:
            budget_exhausted = True
            continue
        if not out.get('ok'):
            harness.append('%s/%s/%s: %s' % (job['sub'], job['config'], job.get('shard'), out.get('error', '?')))
            continue
        harness.extend(out.get('harness_errors', []))
        ps = per_sub.setdefault(job['sub'] + '@' + job['config'],
                                {'evaluations': 0, 'distinct_nontrivial': set(), 'discarded': 0})
        if job['kind'] != 'replay':
            evals += out['evals']
            discarded += out['discarded']
            ps['evaluations'] += out['evals']
            ps['discarded'] += out['discarded']
            for h in out['nontrivial']:
                nontrivial.add(job['sub'] + ':' + h)
                ps['distinct_nontrivial'].add(h)
            for c, k in out['classes'].items():
                key = job['sub'] + ':' + c
                classes[key] = classes.get(key, 0) + k
            if len([1 for s in samples if s['subcheck'] == job['sub']]) < 2 and out['samples']:
                samples.append({'subcheck': job['sub'], 'config': job['config'], 'spec': out['samples'][0]})
        for kid, d in out['known_hits'].items():
            cur = known_hits.setdefault(kid, {'count': 0, 'spec': d['spec'], 'msg': d['msg'], 'sub': job['sub'],
                                              'config': job['config']})
            cur['count'] += d['count']
        for v in out['violations']:
            key = core.sig_key(v['sig'])
            size = len(core.canon(v['spec']))
            if key not in violations or size < violations[key]['size']:
                violations[key] = {'sig': v['sig'], 'spec': v['spec'], 'msg': v['msg'], 'size': size,
                                   'sub': job['sub'], 'config': job['config'],
                                   'from_replay': job.get('file')}
    rc = 0
    outdir = os.path.join(VERIF, 'out', prop)
    os.makedirs(outdir, exist_ok=True)
    for kid, d in sorted(known_hits.items()):
        k = [x for x in known if x['id'] == kid][0]
        print('KNOWN-FINDING: property=%s %s [%s; %d hits]' % (prop, k['what'], kid, d['count']))
    viol_list = []
    for key, v in sorted(violations.items()):
        name = hashlib.sha256(key.encode()).hexdigest()[:12]
        path = os.path.join(outdir, 'viol_%s.json' % name)
        with open(path, 'w') as f:
            json.dump({'property': prop, 'subcheck': v['sub'], 'config': v['config'], 'signature': v['sig'],
                       'message': v['msg'], 'spec': v['spec']}, f, indent=1, default=core._default)
        print('VIOLATION property=%s replay=%s' % (prop, path))
        print('   signature: %s' % json.dumps(v['sig'], default=core._default))
        print('   message: %s' % v['msg'][:600])
        viol_list.append({'signature': v['sig'], 'replay': path, 'message': v['msg'][:300]})
        rc = 1
    if harness:
        for h in harness[:5]:
            print('HARNESS-ERROR:', h[-3000:])
        if rc == 0:
            rc = 2
    wall = time.time() - t0
    if not args.no_evidence and not args.replay and args.sub is None:
        rule = getattr(mod, 'RULE', '')
        ev = {
            'property_id': prop,
            'tier': tier,
            'seed': int(os.environ.get('VERIF_SEED', '1')),
            'level': getattr(mod, 'LEVEL', 'exploration'),
            'coverage': {
                'evaluations': evals,
                'distinct_nontrivial': len(nontrivial),
                'rule': rule,
                'samples': samples[:12],
                'exhaustive': bool(getattr(mod, 'EXHAUSTIVE', {}).get(tier, False)),
                'per_subcheck': {k: {'evaluations': v['evaluations'],
                                     'distinct_nontrivial': len(v['distinct_nontrivial']),
                                     'discarded': v['discarded']} for k, v in sorted(per_sub.items())},
                'class_histogram': dict(sorted(classes.items())),
                'discarded': discarded,
                'replays_run': len([1 for j, _ in results if j['kind'] == 'replay']),
                'known_findings_hit': {k: v['count'] for k, v in known_hits.items()},
                'configs': sorted({j['config'] for j, _ in results}),
                'pyx_sha': binfo.get('pyx_sha'),
                'budget_exhausted': budget_exhausted,
                'violations': viol_list,
                'harness_errors': len(harness),
            },
            'assumptions': list(getattr(mod, 'ASSUMPTIONS', [])),
            'wall_s': round(wall, 2),
            'violations': len(viol_list),
        }
        evdir = os.environ.get('VF_EVIDENCE_DIR', os.path.join(VERIF, 'evidence'))
        os.makedirs(evdir, exist_ok=True)
        p = os.path.join(evdir, prop + '.json')
        with open(p + '.tmp', 'w') as f:
            json.dump(ev, f, indent=1, default=core._default)
        os.replace(p + '.tmp', p)
    print('[%s %s seed=%s] evaluations=%d distinct_nontrivial=%d discarded=%d known=%d violations=%d wall=%.1fs%s'
          % (prop, tier, os.environ.get('VERIF_SEED', '1'), evals, len(nontrivial), discarded, len(known_hits),
             len(viol_list), wall, ' BUDGET-EXHAUSTED(inconclusive part)' if budget_exhausted else ''))
    return rc


def _run_jobs(jobs, scratch, deadline):
    """Run jobs on up to NPROC worker processes; returns [(job, out|None)]."""
    tmp = tempfile.mkdtemp(prefix='vf-jobs-')
    results = []
    running = []
    pending = list(enumerate(jobs))
    pending.reverse()
    try:
        while pending or running:
            while pending and len(running) < NPROC:
                if time.time() > deadline:
                    i, job = pending.pop()
                    results.append((i, job, None))
                    continue
                i, job = pending.pop()
                jf = os.path.join(tmp, 'job%d.json' % i)
                of = os.path.join(tmp, 'out%d.json' % i)
                with open(jf, 'w') as f:
                    json.dump(job, f, default=core._default)
                env = build.child_env(scratch, job['config'])
                lf = open(os.path.join(tmp, 'log%d.txt' % i), 'w')
                p = subprocess.Popen([build.PY, '-m', 'vf.worker', jf, of], env=env, cwd=VERIF, stdout=lf,
                                     stderr=subprocess.STDOUT)
                running.append((i, job, p, of, lf))
            still = []
            for (i, job, p, of, lf) in running:
                if p.poll() is None:
                    still.append((i, job, p, of, lf))
                    continue
                lf.close()
                if os.path.exists(of):
                    out = json.load(open(of))
                else:
                    log = open(os.path.join(tmp, 'log%d.txt' % i)).read()[-3000:]
                    out = {'ok': False, 'error': 'worker died (rc=%s) without verdict: %s' % (p.returncode, log)}
                results.append((i, job, out))
            running = still
            if running:
                time.sleep(0.05)
    finally:
        for (i, job, p, of, lf) in running:
            p.kill()
        shutil.rmtree(tmp, ignore_errors=True)
    results.sort(key=lambda t: t[0])
    return [(job, out) for (_, job, out) in results]


if __name__ == '__main__':
    sys.exit(main())
