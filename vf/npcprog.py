"""Program engine for np_conserved (C01-C04): interprets a JSON *program spec* against the library and
against a dense numpy shadow.

spec = {"pool": {"ch": {...}, "legs": [...]}, "tensors": [tspec, ...], "ops": [[name, i0, i1, ...], ...]}

All integers in an op are resolved *modulo* the options available at that point (live tensors, axes, ...), so
every spec is a valid program (partner construction at interpretation time, no rejection).
"""
import itertools
import warnings

import numpy as np

from . import gen, dense as D
from .core import Violation, require

MAX_SIZE = 4096
MAX_RANK = 6
MAX_LIVE = 7


class Ent:
    """A live tensor with its dense shadow."""

    def __init__(self, arr, dense, labels, qtotal, legq, legc, exact, name):
        self.arr = arr
        self.dense = np.asarray(dense)
        self.labels = list(labels)
        self.qtotal = np.asarray(qtotal, dtype=np.int64)
        self.legq = [np.asarray(q, dtype=np.int64) for q in legq]  # per index signed charge
        self.legc = list(legc)  # expected qconj per leg (None = unspecified by the documentation)
        self.exact = exact
        self.name = name
        self.group = None  # alias group (documented shallow copies)
        self.dead = False


class SkipOp(Exception):
    pass



def placeholder(labels, k):
    """label of leg k inside a pipe label: its own label, or the documented placeholder '?k' (prefixed with further '?' until
    the resulting single-leg pipe label does not clash with an existing label)"""
    if labels[k] is not None:
        return labels[k]
    ph = '?%d' % k
    while '(' + ph + ')' in labels:
        ph = '?' + ph
    return ph

def conj_label(lbl):
    """Documented label conjugation: 'a'->'a*', 'a*'->'a', '(a.(b*.c))' -> '(a*.(b.c*))'."""
    if lbl is None:
        return None
    out = []
    i = 0
    n = len(lbl)
    tok = ''
    for ch in lbl:
        if ch in '().':
            if tok:
                out.append(tok[:-1] if tok.endswith('*') else tok + '*')
                tok = ''
            out.append(ch)
        else:
            tok += ch
    if tok:
        out.append(tok[:-1] if tok.endswith('*') else tok + '*')
    return ''.join(out)


def drop_dup(la, lb):
    la = list(la)
    lb = list(lb)
    dup = {l for l in la if l is not None and l in lb}
    return [None if l in dup else l for l in la] + [None if l in dup else l for l in lb]


def split_label(label, count):
    if label is None:
        return [None] * count
    if not (label[0] == '(' and label[-1] == ')'):
        return [None] * count
    res = []
    depth = 0
    beg = 1
    for i in range(1, len(label) - 1):
        c = label[i]
        if c == '(':
            depth += 1
        elif c == ')':
            depth -= 1
        elif c == '.' and depth == 0:
            res.append(label[beg:i])
            beg = i + 1
    res.append(label[beg:len(label) - 1])
    return [None if r.startswith('?') else r for r in res]


class Interp:
    def __init__(self, spec, check_dense=True, check_inv=False, check_alias=False, record=False):
        from tenpy.linalg import np_conserved as npc
        from tenpy.linalg import charges
        self.npc = npc
        self.charges = charges
        self.spec = spec
        self.check_dense = check_dense
        self.check_inv = check_inv
        self.check_alias = check_alias
        self.record = record
        self.lenient_dtype = False
        self.trace = []
        self.chinfo, self.pool = gen.build_pool(spec['pool'])
        self.mod = [int(m) for m in self.chinfo.mod]
        self.qn = len(self.mod)
        self.live = []
        self.counter = 0
        self.classes = set()
        self.ops_done = []
        self.skipped = 0
        self.nontrivial_ops = 0
        self.scalars = []
        self.step = -1
        self.opname = 'init'
        for t in spec['tensors']:
            try:
                self.new_tensor(t)
            except SkipOp:
                self.skipped += 1

    # ------------------------------------------------------------------ helpers
    def mv(self, q):
        return D.make_valid(self.mod, q)

    def legq_of(self, leg):
        return self.mv(D.signed_qflat(leg))

    def new_name(self):
        self.counter += 1
        return 't%d' % self.counter

    def new_tensor(self, tspec, legs=None):
        if legs is None:
            legs = []
            for i, sgn in tspec['legs']:
                leg = self.pool[i % len(self.pool)]
                legs.append(leg if sgn == 1 else leg.conj())
        size = int(np.prod([l.ind_len for l in legs]))
        if size > MAX_SIZE or len(legs) > MAX_RANK:
            raise SkipOp()
        arr, dense, info = gen.build_array(legs, tspec, self.chinfo)
        ent = Ent(arr, dense, tspec.get('labels') or [None] * len(legs), self.mv(arr.qtotal),
                  [self.legq_of(l) for l in legs], [l.qconj for l in legs], tspec['fill']['kind'] == 'int',
                  self.new_name())
        for l in legs:
            self.classes.update(gen.leg_classes(l))
        if info['stored_blocks'] >= 2:
            self.classes.add('multi_stored')
        if info['stored_blocks'] < info['compatible_blocks']:
            self.classes.add('missing_block')
        if info['stored_blocks'] == 0:
            self.classes.add('no_blocks')
        if np.any(arr.qtotal != 0):
            self.classes.add('qtotal!=0')
        if self.qn >= 2:
            self.classes.add('multi_charge')
        if any(m > 1 for m in self.mod):
            self.classes.add('Z_N')
        if arr.dtype.kind == 'c':
            self.classes.add('complex')
        ent.multi = info['multi_block_leg'] and info['stored_blocks'] >= 2
        self.add(ent)
        return ent

    def add(self, ent):
        if not hasattr(ent, 'multi'):
            ent.multi = False
        self.live.append(ent)
        if len(self.live) > MAX_LIVE:
            old = self.live.pop(0)
            # an evicted tensor is still compared against the snapshot of the running step; remember it so that
            # mark_inplace can exempt it if it belongs to the (documented) alias group of the in-place target
            self._evicted = getattr(self, '_evicted', []) + [old]
        return ent

    def pick(self, k):
        if not self.live:
            raise SkipOp()
        return self.live[k % len(self.live)]

    def tol(self, *ents):
        arrs = [e.dense for e in ents]
        return gen.tol_for(*arrs, base=256)

    # ------------------------------------------------------------------ verification of an entry
    def verify(self, ent, what):
        a = ent.arr
        npc = self.npc
        tags = dict(op=self.opname)
        require(isinstance(a, npc.Array), 'result-type', '%s: %r' % (what, type(a)), **tags)
        got = a.to_ndarray()
        require(got.shape == ent.dense.shape, 'shape', '%s: %s vs expected %s' % (what, got.shape, ent.dense.shape), **tags)
        if got.dtype != ent.dense.dtype:
            if self.lenient_dtype and np.result_type(got.dtype, ent.dense.dtype) == ent.dense.dtype \
                    and got.dtype.kind in 'fc' and got.dtype.itemsize * (2 if got.dtype.kind == 'f' else 1) == ent.dense.dtype.itemsize:
                # the result is stored in the real type although numpy promotes to complex: values are checked below
                self.classes.add('dtype-real-for-complex')
                ent.dense = ent.dense
            elif a.stored_blocks == 0 and not np.any(ent.dense):
                # dtype of a tensor without any block is only updated lazily (documented for *_blockwise)
                self.classes.add('dtype-unresolved-empty')
                ent.dense = ent.dense.astype(got.dtype)
            else:
                raise Violation('dtype', '%s: %s vs numpy %s' % (what, got.dtype, ent.dense.dtype), **tags)
        require(a.dtype == got.dtype, 'dtype-attr', '%s: a.dtype=%s, data %s' % (what, a.dtype, got.dtype), **tags)
        if ent.exact:
            ok = np.array_equal(got, ent.dense)
        else:
            ok = np.allclose(got, ent.dense, rtol=1e-10, atol=1e-10 * max(1.0, float(np.max(np.abs(ent.dense))) if ent.dense.size else 1.0))
        if not ok:
            diff = np.argwhere(got != ent.dense)[:3].tolist() if got.shape == ent.dense.shape else []
            raise Violation('dense-mismatch', '%s: result differs from numpy at %s; got %s expected %s' % (
                what, diff, np.array2string(got.ravel()[:12]), np.array2string(ent.dense.ravel()[:12])), **tags)
        require(list(a.get_leg_labels()) == list(ent.labels), 'labels',
                '%s: %s vs documented %s' % (what, a.get_leg_labels(), ent.labels), **tags)
        require(np.array_equal(self.mv(a.qtotal), ent.qtotal) and np.array_equal(a.qtotal, self.mv(a.qtotal)), 'qtotal',
                '%s: %s vs %s' % (what, a.qtotal, ent.qtotal), **tags)
        for i, leg in enumerate(a.legs):
            require(leg.ind_len == got.shape[i], 'leg-len', '%s leg %d' % (what, i), **tags)
            lq = self.legq_of(leg)
            require(np.array_equal(lq, ent.legq[i]), 'leg-charges',
                    '%s: leg %d charges*qconj %s vs expected %s' % (what, i, lq.tolist(), ent.legq[i].tolist()), **tags)
            if ent.legc[i] is not None:
                require(leg.qconj == ent.legc[i], 'leg-qconj', '%s: leg %d qconj %d expected %d' % (what, i, leg.qconj, ent.legc[i]), **tags)
        # every non-zero entry obeys the charge rule (implied by the above, but cheap)
        nz = np.argwhere(got != 0)
        if len(nz):
            q = sum(ent.legq[i][nz[:, i]] for i in range(got.ndim))
            require(np.all(self.mv(q) == ent.qtotal[None, :]), 'charge-rule', what, **tags)

    def record_ent(self, ent):
        a = ent.arr
        legs = []
        for l in a.legs:
            legs.append(_leg_record(l))
        rows = sorted(tuple(int(x) for x in r) for r in a._qdata)
        d = a.to_ndarray()
        return {'name': ent.name, 'dtype': str(a.dtype), 'shape': list(d.shape), 'legs': legs, 'labels': list(a.get_leg_labels()),
                'qtotal': [int(x) for x in a.qtotal], 'blocks': [list(r) for r in rows],
                're': np.real(d).ravel().tolist(), 'im': np.imag(d).ravel().tolist() if d.dtype.kind == 'c' else None}

    # ------------------------------------------------------------------ running
    def run(self):
        from . import inv
        for e in self.live:
            self.opname = 'init'
            if self.check_dense:
                self.verify(e, 'initial tensor')
            if self.check_inv:
                inv.check_array(e.arr, self.opname)
        if self.record:
            self.trace.append({'op': 'init', 'ents': [self.record_ent(e) for e in self.live]})
        for k, op in enumerate(self.spec['ops']):
            self.step = k
            name = op[0]
            self.opname = name
            fn = getattr(self, 'op_' + name)
            snap = None
            if self.check_alias:
                snap = self.snapshot()
            try:
                with warnings.catch_warnings():
                    warnings.simplefilter('ignore')
                    touched = fn(*op[1:])
            except SkipOp:
                self.skipped += 1
                if self.record:
                    self.trace.append({'op': name, 'skipped': True})
                continue
            except Violation:
                raise
            except Exception as e:
                raise op_exception(e, name)
            self.ops_done.append(name)
            touched = touched or []
            for e in touched:
                if isinstance(e, Ent) and not e.dead:
                    if self.check_dense:
                        self.verify(e, 'result of %s (step %d)' % (name, k))
            if self.check_inv:
                for e in self.live:
                    inv.check_array(e.arr, name)
            if self.check_alias:
                self.compare_snapshot(snap, touched, name)
            if self.record:
                self.trace.append({'op': name, 'ents': [self.record_ent(e) for e in touched if isinstance(e, Ent) and not e.dead],
                                   'scalars': [_scal(s) for s in self.scalars[-1:]] if touched == 'scalar' else None})
        return self

    # ------------------------------------------------------------------ alias / mutation tracking (C03)
    def all_legs(self):
        seen = {}

        def visit(l):
            if id(l) in seen:
                return
            seen[id(l)] = l
            if hasattr(l, 'legs'):
                for s in l.legs:
                    visit(s)
        for l in self.pool:
            visit(l)
        for e in self.live:
            for l in e.arr.legs:
                visit(l)
        return seen

    def snapshot(self):
        snap = {'ents': {}, 'legs': {}, 'chinfo': (tuple(self.chinfo.mod), tuple(self.chinfo.names))}
        for e in self.live:
            snap['ents'][id(e)] = (e, _fingerprint(e.arr))
        for i, l in self.all_legs().items():
            snap['legs'][i] = (l, _leg_fingerprint(l))
        return snap

    def compare_snapshot(self, snap, touched, name):
        touched_ids = {id(e) for e in touched if isinstance(e, Ent)} if touched != 'scalar' else set()
        inplace_targets = getattr(self, '_inplace', set())
        self._inplace = set()
        for i, (e, fp) in snap['ents'].items():
            if e.dead:
                continue
            if i in inplace_targets:
                continue
            now = _fingerprint(e.arr)
            if now != fp:
                what = [k for k in fp if fp[k] != now[k]]
                raise Violation('operand-mutated', 'tensor %s (not the target of an in-place method) changed in %s during %s' % (
                    e.name, what, name), op=name, what=','.join(what))
        for i, (l, fp) in snap['legs'].items():
            now = _leg_fingerprint(l)
            if now['data'] != fp['data']:
                raise Violation('leg-mutated', 'a LegCharge object was mutated during %s: %s -> %s' % (name, fp['data'], now['data']), op=name)
            if now['flags'] != fp['flags']:
                # flags may only change to a true statement
                if l.sorted and not l.is_sorted() or l.bunched and not l.is_bunched():
                    raise Violation('leg-flag-false', 'flag of shared leg changed to a false statement during %s' % name, op=name)
        require((tuple(self.chinfo.mod), tuple(self.chinfo.names)) == snap['chinfo'], 'chinfo-mutated', name, op=name)

    def mark_inplace(self, ent):
        """Declare `ent` the target of an in-place method.  Other members of its (documented) alias group have
        undefined content afterwards and leave the pool."""
        if not hasattr(self, '_inplace'):
            self._inplace = set()
        self._inplace.add(id(ent))
        if ent.group is not None:
            for o in list(self.live):
                if o is not ent and o.group == ent.group:
                    o.dead = True
                    self.live.remove(o)
                    self._inplace.add(id(o))
            for o in getattr(self, '_evicted', []):
                if o.group == ent.group:
                    o.dead = True
            ent.group = None

    def alias(self, a, b):
        """Put a and b (and everything already aliased with either) into one alias group."""
        if a.group is None:
            a.group = self.new_name()
        if b.group is not None and b.group != a.group:
            old = b.group
            for e in self.live + [a, b]:
                if e.group == old:
                    e.group = a.group
        b.group = a.group

    # ------------------------------------------------------------------ operations
    def _axes_spec(self, ent, axes, style):
        """Return axes either as ints or as labels (if all labelled and style is odd)."""
        if style % 2 == 1 and all(ent.labels[a] is not None for a in axes):
            return [ent.labels[a] for a in axes]
        if style % 4 == 2:
            return [a - len(ent.labels) for a in axes]  # negative indices
        return [int(a) for a in axes]

    def contractible_pairs(self, a, b):
        pairs = []
        for i, la in enumerate(a.arr.legs):
            for j, lb in enumerate(b.arr.legs):
                if la.qconj == -lb.qconj and la.ind_len == lb.ind_len and np.array_equal(la.slices, lb.slices) \
                        and np.array_equal(la.charges, lb.charges):
                    pairs.append((i, j))
        return pairs

    def op_tensordot(self, i, j, k, sel, style):
        npc = self.npc
        a, b = self.pick(i), self.pick(j)
        pairs = self.contractible_pairs(a, b)
        if not pairs or k % 5 == 4:
            # partner construction: a fresh tensor sharing (conjugated) legs with `a`, plus legs from the pool
            rng = np.random.default_rng(sel)
            ra_ = a.dense.ndim
            nshare = 1 + int(rng.integers(0, min(3, ra_)))
            share = [int(x) for x in rng.permutation(ra_)[:nshare]]
            legs = [a.arr.legs[x].conj() for x in share]
            labs = [conj_label(a.labels[x]) if (sel >> 3) % 2 else None for x in share]
            nextra = int(rng.integers(0, 3))
            used = set(l for l in labs if l is not None)
            for e in range(nextra):
                pl = self.pool[int(rng.integers(0, len(self.pool)))]
                legs.append(pl if rng.integers(0, 2) else pl.conj())
                lab = ['x', 'y', 'z', None][int(rng.integers(0, 4))]
                labs.append(lab if lab not in used else None)
                used.add(lab)
            order = [int(x) for x in rng.permutation(len(legs))]
            legs = [legs[o] for o in order]
            labs = [labs[o] for o in order]
            tspec = {'fill': {'kind': 'int' if a.exact else 'gauss', 'seed': sel, 'absent': [0, 2, 5][sel % 3], 'zero': [0, 2][sel % 2],
                              'order': ['sorted', 'shuffled'][(sel // 3) % 2], 'dt': ['float64', 'complex128'][(sel // 5) % 2]},
                     'labels': labs, 'qt': sel // 7}
            b = self.new_tensor(tspec, legs)
            pairs = self.contractible_pairs(a, b)
            self.classes.add('tensordot-partner')
        chosen = []
        ua, ub = set(), set()
        if pairs:
            n = 1 + k % min(3, len(pairs))
            s = sel
            for _ in range(n):
                cand = [p for p in pairs if p[0] not in ua and p[1] not in ub]
                if not cand:
                    break
                p = cand[s % len(cand)]
                s //= 7
                chosen.append(p)
                ua.add(p[0])
                ub.add(p[1])
        axa = [p[0] for p in chosen]
        axb = [p[1] for p in chosen]
        ra = [x for x in range(a.dense.ndim) if x not in axa]
        rb = [x for x in range(b.dense.ndim) if x not in axb]
        size = int(np.prod([a.dense.shape[x] for x in ra] + [b.dense.shape[x] for x in rb]))
        if size > MAX_SIZE or len(ra) + len(rb) > MAX_RANK:
            raise SkipOp()
        exp = np.tensordot(a.dense, b.dense, axes=(axa, axb))
        if chosen:
            axes = (self._axes_spec(a, axa, style), self._axes_spec(b, axb, style // 2))
            self.classes.add('tensordot-contract')
            if a.multi or b.multi:
                self.nontrivial_ops += 1
        else:
            axes = 0
            self.classes.add('tensordot-outer')
        if a is b:
            self.classes.add('tensordot-self')
        res = npc.tensordot(a.arr, b.arr, axes=axes)
        if not ra and not rb:
            return self.scalar(res, exp, a, b)
        labels = drop_dup([a.labels[x] for x in ra], [b.labels[x] for x in rb])
        ent = Ent(res, exp, labels, self.mv(a.qtotal + b.qtotal), [a.legq[x] for x in ra] + [b.legq[x] for x in rb],
                  [a.legc[x] for x in ra] + [b.legc[x] for x in rb], a.exact and b.exact, self.new_name())
        ent.multi = a.multi or b.multi
        return [self.add(ent)]

    def scalar(self, res, exp, *ents):
        exact = all(e.exact for e in ents)
        self.scalars.append(res)
        require(np.ndim(res) == 0 and not isinstance(res, self.npc.Array), 'scalar-type', repr(type(res)), op=self.opname)
        if exact:
            ok = (res == exp)
        else:
            ok = abs(res - exp) <= self.tol(*ents)
        require(ok, 'scalar-mismatch', 'got %r expected %r' % (res, exp), op=self.opname)
        return 'scalar'

    def op_outer(self, i, j):
        a, b = self.pick(i), self.pick(j)
        if a.dense.size * b.dense.size > MAX_SIZE or a.dense.ndim + b.dense.ndim > MAX_RANK:
            raise SkipOp()
        res = self.npc.outer(a.arr, b.arr)
        exp = np.multiply.outer(a.dense, b.dense)
        ent = Ent(res, exp, drop_dup(a.labels, b.labels), self.mv(a.qtotal + b.qtotal), a.legq + b.legq, a.legc + b.legc,
                  a.exact and b.exact, self.new_name())
        ent.multi = a.multi or b.multi
        return [self.add(ent)]

    def make_like(self, a, perm_seed, conj, fillseed, same_labels=True, qt_same=True, kind=None):
        """Partner with the same (or conjugated) legs as `a`, optionally with axes permuted (labels follow)."""
        rng = np.random.default_rng(perm_seed)
        r = a.dense.ndim
        perm = list(rng.permutation(r)) if perm_seed % 3 == 0 and r > 1 else list(range(r))
        legs = [a.arr.legs[p] for p in perm]
        if conj:
            legs = [l.conj() for l in legs]
        labels = [a.labels[p] for p in perm]
        if conj:
            labels = [conj_label(l) for l in labels]
        arr_dt = str(a.arr.dtype)
        tspec = {'fill': {'kind': kind or ('int' if a.exact else 'gauss'), 'seed': fillseed, 'absent': [0, 3, 6][fillseed % 3], 'zero': 0,
                          'order': ['sorted', 'shuffled'][fillseed % 2], 'dt': arr_dt if arr_dt in ('float64', 'complex128') else 'float64'},
                 'labels': labels}
        # same qtotal as a (or its negative if conj): pass explicit qtotal through 'arb'
        q = a.qtotal if not conj else self.mv(-a.qtotal)
        tspec['qt'] = 'arb'
        tspec['qarb'] = [int(q[i % self.qn]) if self.qn else 0 for i in range(4)] if self.qn <= 4 else None
        if self.qn > 4:
            raise SkipOp()
        # qarb is indexed i % 4 by the builder; with qn <= 4 this is the identity on the first qn entries
        tspec['qarb'] = ([int(x) for x in q] + [0, 0, 0, 0])[:4]
        ent = self.new_tensor(tspec, legs)
        return ent, perm

    def op_new_like(self, i, perm_seed, conj, fillseed):
        a = self.pick(i)
        ent, perm = self.make_like(a, perm_seed, conj % 2 == 1, fillseed)
        return [ent]

    def op_new(self, k):
        ts = self.spec.get('extra', [])
        if not ts:
            raise SkipOp()
        return [self.new_tensor(ts[k % len(ts)])]

    def op_inner(self, i, perm_seed, do_conj, fillseed, axes_style):
        a = self.pick(i)
        do_conj = bool(do_conj % 2)
        b, perm = self.make_like(a, perm_seed, conj=not do_conj, fillseed=fillseed)
        # b axis k corresponds to a axis perm[k]
        r = a.dense.ndim
        bd = np.transpose(b.dense, np.argsort(perm))  # bring b to a's axis order
        if do_conj:
            exp = np.sum(np.conj(a.dense) * bd)
        else:
            exp = np.sum(a.dense * bd)
        labelled = all(l is not None for l in a.labels) and len(set(a.labels)) == r
        if axes_style % 3 == 0 and labelled:
            axes = 'labels'
        elif perm == list(range(r)) and axes_style % 3 == 1:
            axes = 'range'
        else:
            axes = (list(perm), list(range(r)))
        if a.multi:
            self.nontrivial_ops += 1
        self.classes.add('inner-' + (axes if isinstance(axes, str) else 'explicit'))
        res = self.npc.inner(a.arr, b.arr, axes=axes, do_conj=do_conj)
        return self.scalar(res, exp, a, b)

    def op_trace(self, i, sel, style):
        a = self.pick(i)
        pairs = [(x, y) for (x, y) in self.contractible_pairs(a, a) if x < y]
        if not pairs:
            raise SkipOp()
        x, y = pairs[sel % len(pairs)]
        if sel % 2:
            x, y = y, x
        ax = self._axes_spec(a, [x, y], style)
        res = self.npc.trace(a.arr, ax[0], ax[1])
        exp = np.trace(a.dense, axis1=x, axis2=y)
        if a.dense.ndim == 2:
            return self.scalar(res, exp, a)
        keep = [k for k in range(a.dense.ndim) if k not in (x, y)]
        ent = Ent(res, exp, [a.labels[k] for k in keep], a.qtotal, [a.legq[k] for k in keep], [a.legc[k] for k in keep], a.exact,
                  self.new_name())
        ent.multi = a.multi
        if a.multi:
            self.nontrivial_ops += 1
        return [self.add(ent)]

    def op_transpose(self, i, seed, inplace, style):
        a = self.pick(i)
        r = a.dense.ndim
        rng = np.random.default_rng(seed)
        perm = [int(p) for p in rng.permutation(r)]
        use_none = (seed % 5 == 0)
        if use_none:
            perm = list(reversed(range(r)))
        axes = None if use_none else self._axes_spec(a, perm, style)
        exp = np.transpose(a.dense, perm)
        labels = [a.labels[p] for p in perm]
        legq = [a.legq[p] for p in perm]
        legc = [a.legc[p] for p in perm]
        mode = inplace % 3
        if mode == 0:
            res = a.arr.transpose(axes)
            ent = Ent(res, exp, labels, a.qtotal, legq, legc, a.exact, self.new_name())
            ent.multi = a.multi
            return [self.add(ent)]
        self.mark_inplace(a)
        if mode == 1 or r < 2:
            ret = a.arr.itranspose(axes)
        else:
            x, y = seed % r, (seed // 7) % r
            perm = list(range(r))
            perm[x], perm[y] = perm[y], perm[x]
            ax = self._axes_spec(a, [x, y], style)
            ret = a.arr.iswapaxes(ax[0], ax[1])
            exp = np.swapaxes(a.dense, x, y)
            labels = [a.labels[p] for p in perm]
            legq = [a.legq[p] for p in perm]
            legc = [a.legc[p] for p in perm]
            self.classes.add('iswapaxes')
        require(ret is a.arr, 'inplace-returns-self', self.opname, op=self.opname)
        a.dense, a.labels, a.legq, a.legc = exp, labels, legq, legc
        return [a]

    def op_conj(self, i, mode):
        a = self.pick(i)
        m = mode % 4
        if m == 3:
            res = a.arr.complex_conj()
            ent = Ent(res, np.conj(a.dense), a.labels, a.qtotal, a.legq, a.legc, a.exact, self.new_name())
            ent.multi = a.multi
            # documented: unary_blockwise makes a shallow copy; for real dtype data is shared
            self.alias(a, ent)
            return [self.add(ent)]
        cc = (m != 2)
        exp = np.conj(a.dense) if cc else a.dense.copy()
        labels = [conj_label(l) for l in a.labels]
        legq = [self.mv(-q) for q in a.legq]
        legc = [None if c is None else -c for c in a.legc]
        qt = self.mv(-a.qtotal)
        if m == 1:
            self.mark_inplace(a)
            ret = a.arr.iconj(cc)
            require(ret is a.arr, 'inplace-returns-self', 'iconj', op=self.opname)
            a.dense, a.labels, a.legq, a.legc, a.qtotal = exp, labels, legq, legc, qt
            return [a]
        res = a.arr.conj(cc)
        ent = Ent(res, exp, labels, qt, legq, legc, a.exact, self.new_name())
        ent.multi = a.multi
        return [self.add(ent)]

    def op_add(self, i, perm_seed, fillseed, mode, pref):
        """a + b, a - b, a += b, iadd_prefactor_other, binary_blockwise with a partner of equal legs
        (possibly with the same labels in a different order -> documented transposition)."""
        a = self.pick(i)
        labelled = all(l is not None for l in a.labels) and len(set(a.labels)) == a.dense.ndim
        b, perm = self.make_like(a, perm_seed if labelled else 1, False, fillseed)
        bd = np.transpose(b.dense, np.argsort(perm))
        if perm != list(range(len(perm))):
            self.classes.add('add-permuted-labels')
        m = mode % 6
        prefs = [1, -1, 2, 0, 0.5, -3, 1j, 2.0]
        p = prefs[pref % len(prefs)]
        if a.multi or b.multi:
            self.nontrivial_ops += 1
        if m == 0:
            res, exp, exact = a.arr + b.arr, a.dense + bd, a.exact and b.exact
        elif m == 1:
            res, exp, exact = a.arr - b.arr, a.dense - bd, a.exact and b.exact
        elif m == 2:
            fsel = pref % 5
            if fsel == 0:
                res = a.arr.binary_blockwise(np.subtract, b.arr)
                exp = np.subtract(a.dense, bd)
            elif fsel == 1:
                res = a.arr.binary_blockwise(np.multiply, b.arr)
                exp = np.multiply(a.dense, bd)
            elif fsel == 2 and a.dense.dtype.kind != 'c' and b.dense.dtype.kind != 'c':
                res = a.arr.binary_blockwise(np.maximum, b.arr)
                exp = np.maximum(a.dense, bd)
            elif fsel == 3:
                res = a.arr.binary_blockwise(lambda x, y, al, be=1: al * x + be * y, b.arr, 2, be=-3)
                exp = 2 * a.dense - 3 * bd
            else:
                res = a.arr.binary_blockwise(lambda x, y: 3 * x - y, b.arr)
                exp = 3 * a.dense - bd
            exact = a.exact and b.exact
            self.classes.add('binary_blockwise-f%d' % fsel)
        elif m == 3:
            self.mark_inplace(a)
            ret = a.arr.iadd_prefactor_other(p, b.arr)
            require(ret is a.arr, 'inplace-returns-self', 'iadd_prefactor_other', op=self.opname)
            a.dense = a.dense + p * bd
            a.exact = a.exact and b.exact and float(np.real(p)).is_integer() and float(np.imag(p)).is_integer()
            self.classes.add('iadd_prefactor_other')
            return [a]
        elif m == 4:
            self.mark_inplace(a)
            arr = a.arr
            arr += b.arr
            require(arr is a.arr, 'inplace-returns-self', '+=', op=self.opname)
            a.dense = a.dense + bd
            a.exact = a.exact and b.exact
            return [a]
        else:
            self.mark_inplace(a)
            ret = a.arr.ibinary_blockwise(np.add, b.arr)
            require(ret is a.arr, 'inplace-returns-self', 'ibinary_blockwise', op=self.opname)
            a.dense = a.dense + bd
            a.exact = a.exact and b.exact
            return [a]
        ent = Ent(res, exp, a.labels, a.qtotal, a.legq, a.legc, exact, self.new_name())
        ent.multi = a.multi or b.multi
        if m == 2:
            pass
        return [self.add(ent)]

    def op_scale(self, i, mode, pref):
        a = self.pick(i)
        prefs = [2, -1, 0.5, 3, 1j, 0, 2.5, -2]
        p = prefs[pref % len(prefs)]
        m = mode % 6
        if m in (2, 5) and p == 0:
            p = 4
        if m == 0:
            res, exp = a.arr * p, a.dense * p
        elif m == 1:
            res, exp = p * a.arr, p * a.dense
        elif m == 2:
            res, exp = a.arr / p, a.dense * (1.0 / p)
        elif m == 3:
            self.mark_inplace(a)
            ret = a.arr.iscale_prefactor(p)
            require(ret is a.arr, 'inplace-returns-self', 'iscale_prefactor', op=self.opname)
            a.dense = a.dense * p
            a.exact = a.exact and not isinstance(p, float)
            return [a]
        elif m == 4:
            self.mark_inplace(a)
            arr = a.arr
            arr *= p
            require(arr is a.arr, 'inplace-returns-self', '*=', op=self.opname)
            a.dense = a.dense * p
            a.exact = a.exact and not isinstance(p, float)
            return [a]
        else:
            res, exp = -a.arr, -a.dense
            ent = Ent(res, exp, a.labels, a.qtotal, a.legq, a.legc, a.exact, self.new_name())
            ent.multi = a.multi
            self.alias(a, ent)  # __neg__ = unary_blockwise: documented shallow copy
            return [self.add(ent)]
        exact = a.exact and not isinstance(p, float) and m != 2
        ent = Ent(res, exp, a.labels, a.qtotal, a.legq, a.legc, exact, self.new_name())
        ent.multi = a.multi
        return [self.add(ent)]

    def op_scale_axis(self, i, ax, seed, inplace, style):
        a = self.pick(i)
        r = a.dense.ndim
        x = ax % r
        rng = np.random.default_rng(seed)
        kinds = seed % 3
        if kinds == 0:
            s = rng.integers(-2, 3, size=a.dense.shape[x]).astype(float)
        elif kinds == 1:
            s = rng.normal(size=a.dense.shape[x])
        else:
            s = rng.integers(-2, 3, size=a.dense.shape[x]) + 1j * rng.integers(-2, 3, size=a.dense.shape[x])
        shape = [1] * r
        shape[x] = -1
        exp = a.dense * s.reshape(shape)
        axis = self._axes_spec(a, [x], style)[0]
        exact = a.exact and kinds != 1
        if inplace % 2:
            self.mark_inplace(a)
            ret = a.arr.iscale_axis(s, axis)
            require(ret is a.arr, 'inplace-returns-self', 'iscale_axis', op=self.opname)
            a.dense, a.exact = exp, exact
            return [a]
        res = a.arr.scale_axis(s, axis)
        ent = Ent(res, exp, a.labels, a.qtotal, a.legq, a.legc, exact, self.new_name())
        ent.multi = a.multi
        return [self.add(ent)]

    # -- combine / split ------------------------------------------------------------------------
    def op_combine(self, i, seed, npipes, qc, use_new_axes, style):
        a = self.pick(i)
        r = a.dense.ndim
        rng = np.random.default_rng(seed)
        axes = [int(x) for x in rng.permutation(r)]
        npipes = 1 + npipes % 2
        groups = []
        pos = 0
        for p in range(npipes):
            remaining = r - pos
            if remaining <= 0:
                break
            n = 1 + int(rng.integers(0, min(3, remaining)))
            groups.append(axes[pos:pos + n])
            pos += n
        if not groups:
            raise SkipOp()
        new_rank = r - sum(len(g) for g in groups) + len(groups)
        qconjs = []
        for k, g in enumerate(groups):
            c = [None, 1, -1][(qc // (3 ** k)) % 3]
            qconjs.append(c)
        if use_new_axes % 3 == 0:
            new_axes = None
            eff_new_axes = D.default_new_axes(r, groups)
        else:
            eff_new_axes = [int(x) for x in rng.permutation(new_rank)[:len(groups)]]
            new_axes = list(eff_new_axes)
            if use_new_axes % 3 == 2:
                new_axes = [x - new_rank if k % 2 == 0 else x for k, x in enumerate(new_axes)]
        refs = []
        eff_q = []
        for g, c in zip(groups, qconjs):
            cq = c if c is not None else a.arr.legs[g[0]].qconj
            eff_q.append(cq)
            refs.append(D.ref_pipe([a.arr.legs[x] for x in g], cq, self.mod))
        exp, final = D.combine_dense(a.dense, groups, eff_new_axes, [rf['perm'] for rf in refs])
        lab = [placeholder(a.labels, k) for k in range(len(a.labels))]
        labels, legq, legc = [], [], []
        for g in final:
            hit = [k for k, gg in enumerate(groups) if gg == g]
            if hit and any(g is groups[k] or g == groups[k] for k in hit) and (len(g) > 1 or any(g == gg for gg in groups)):
                k = hit[0]
                labels.append('(' + '.'.join(lab[x] for x in g) + ')')
                legq.append(self.mv(refs[k]['charges'] * eff_q[k]))
                legc.append(eff_q[k])
            else:
                labels.append(a.labels[g[0]])
                legq.append(a.legq[g[0]])
                legc.append(a.legc[g[0]])
        cl = [self._axes_spec(a, g, style + k) for k, g in enumerate(groups)]
        single = len(groups) == 1 and style % 3 == 0
        kw = {}
        if any(c is not None for c in qconjs):
            if single:
                kw['qconj'] = eff_q[0] if qconjs[0] is not None else None
            else:
                kw['qconj'] = [c if c is not None else eff_q[k] for k, c in enumerate(qconjs)]
        if new_axes is not None:
            kw['new_axes'] = new_axes[0] if single else new_axes
        if a.multi:
            self.nontrivial_ops += 1
        res = a.arr.combine_legs(cl[0] if single else cl, **kw)
        ent = Ent(res, exp, labels, a.qtotal, legq, legc, a.exact, self.new_name())
        ent.multi = a.multi
        ent.pipes = True
        self.classes.add('combine')
        if any(len(g) >= 2 for g in groups):
            self.classes.add('combine>=2legs')
        return [self.add(ent)]

    def op_split(self, i, sel):
        cands = [e for e in self.live if any(isinstance(l, self.charges.LegPipe) for l in e.arr.legs)]
        if not cands:
            raise SkipOp()
        a = cands[i % len(cands)]
        pipe_axes = [k for k, l in enumerate(a.arr.legs) if isinstance(l, self.charges.LegPipe)]
        if sel % 3 == 0:
            axes = None
            chosen = pipe_axes
        else:
            chosen = [p for k, p in enumerate(pipe_axes) if (sel >> (k + 2)) & 1] or [pipe_axes[0]]
            axes = self._axes_spec(a, chosen, sel // 3)
            if len(chosen) == 1 and sel % 2:
                axes = axes[0]
        size = a.dense.size
        newrank = a.dense.ndim + sum(a.arr.legs[p].nlegs - 1 for p in chosen)
        if newrank > MAX_RANK + 2:
            raise SkipOp()
        # expected: undo the pipe permutation, then reshape
        exp = a.dense
        labels, legq, legc = [], [], []
        newshape = []
        for k in range(a.dense.ndim):
            if k in chosen:
                pipe = a.arr.legs[k]
                rf = D.ref_pipe(list(pipe.legs), pipe.qconj, self.mod)
                inv = np.argsort(rf['perm'])
                exp = np.take(exp, inv, axis=k)
                newshape.extend(pipe.subshape)
                labels.extend(split_label(a.labels[k], pipe.nlegs))
                for sl in pipe.legs:
                    legq.append(self.legq_of(sl))
                    legc.append(sl.qconj)
            else:
                newshape.append(a.dense.shape[k])
                labels.append(a.labels[k])
                legq.append(a.legq[k])
                legc.append(a.legc[k])
        exp = exp.reshape(newshape)
        if a.multi:
            self.nontrivial_ops += 1
        named = [l for l in labels if l is not None]
        if len(set(named)) != len(named):
            # documented: labels of a tensor are unique -> the split must be refused
            try:
                a.arr.split_legs(axes)
            except ValueError:
                self.classes.add('split-duplicate-label-ValueError')
                return []
            raise Violation('duplicate-labels-accepted', 'split_legs produced duplicate labels %s' % labels, op=self.opname)
        res = a.arr.split_legs(axes)
        ent = Ent(res, exp, labels, a.qtotal, legq, legc, a.exact, self.new_name())
        ent.multi = a.multi
        self.classes.add('split')
        return [self.add(ent)]

    def op_sort_legcharge(self, i, sortbits, bunchbits, mode):
        a = self.pick(i)
        r = a.dense.ndim
        if mode % 3 == 0:
            sort, bunch = bool(sortbits % 2), bool(bunchbits % 2)
            sl, bl = [sort] * r, [bunch] * r
        else:
            sl = [bool((sortbits >> k) & 1) for k in range(r)]
            bl = [bool((bunchbits >> k) & 1) for k in range(r)]
            sort, bunch = sl, bl
        perms, res = a.arr.sort_legcharge(sort, bunch)
        require(len(perms) == r, 'sort_legcharge-perm-len', '', op=self.opname)
        exp = a.dense
        legq = []
        for k in range(r):
            p = np.asarray(perms[k])
            require(sorted(p.tolist()) == list(range(a.dense.shape[k])), 'sort_legcharge-perm-not-permutation', str(p), op=self.opname)
            exp = np.take(exp, p, axis=k)
            legq.append(a.legq[k][p])
            leg = res.legs[k]
            if sl[k] and self.qn > 0:
                require(leg.is_sorted(), 'sort_legcharge-not-sorted', 'leg %d' % k, op=self.opname)
            if bl[k]:
                require(leg.is_bunched(), 'sort_legcharge-not-bunched', 'leg %d' % k, op=self.opname)
            if sl[k] and bl[k]:
                require(leg.is_blocked(), 'sort_legcharge-not-blocked', 'leg %d' % k, op=self.opname)
        ent = Ent(res, exp, a.labels, a.qtotal, legq, a.legc, a.exact, self.new_name())
        ent.multi = a.multi
        if a.multi:
            self.nontrivial_ops += 1
        self.alias(a, ent)  # documented: "A shallow copy of self"
        return [self.add(ent)]

    def op_completely_blocked(self, i):
        a = self.pick(i)
        # a named leg 'x' next to a leg already named '(x)' can not be blocked without relabeling: the pipe label '(x)' would
        # be a duplicate (clean ValueError of the library) - outside of the sound domain
        for k, l in enumerate(a.labels):
            if l is not None and '(' + l + ')' in a.labels and not a.arr.legs[k].is_blocked():
                raise SkipOp()
        axes, res = a.arr.as_completely_blocked()
        require(all(res.legs[k].is_blocked() for k in range(res.rank)), 'not-blocked', '', op=self.opname)
        if len(axes) == 0:
            require(res is a.arr, 'as_completely_blocked-identity', '', op=self.opname)
            return [a]
        # result legs are pipes containing a single leg: the data is a permutation of the original along these axes
        exp = a.dense
        legq = list(a.legq)
        labels = list(a.labels)
        for k in axes:
            pipe = res.legs[k]
            rf = D.ref_pipe([a.arr.legs[k]], a.arr.legs[k].qconj, self.mod)
            exp = np.take(exp, rf['perm'], axis=k)
            legq[k] = a.legq[k][rf['perm']]
            labels[k] = '(' + placeholder(a.labels, k) + ')'
        ent = Ent(res, exp, labels, a.qtotal, legq, a.legc, a.exact, self.new_name())
        ent.multi = a.multi
        return [self.add(ent)]

    # -- slicing / indexing -----------------------------------------------------------------------
    def _index(self, n, kind, seed, allow_empty=False):
        """Return (python index object, index array or int)."""
        rng = np.random.default_rng(seed)
        k = kind % 7
        if n == 0:
            return slice(None), np.arange(0)
        if k == 0:
            v = int(rng.integers(0, n))
            if seed % 2:
                return v - n, v
            return v, v
        if k == 1:
            return slice(None), np.arange(n)
        if k == 2:
            start = int(rng.integers(0, n))
            stop = int(rng.integers(start + 1, n + 1))
            step = int(rng.integers(1, 3))
            sl = slice(start, stop, step)
            return sl, np.arange(n)[sl]
        if k == 3:
            sl = slice(None, None, -1) if seed % 2 else slice(int(rng.integers(0, n)), None, -1)
            return sl, np.arange(n)[sl]
        if k == 4:
            mask = rng.integers(0, 2, size=n).astype(bool)
            if not mask.any() and not allow_empty:
                mask[int(rng.integers(0, n))] = True
            return (mask if seed % 2 else mask.tolist()), np.nonzero(mask)[0]
        if k == 5:
            m = int(rng.integers(1, n + 1))
            idx = rng.permutation(n)[:m]
            return (idx if seed % 2 else [int(x) for x in idx]), idx
        idx = np.sort(rng.permutation(n)[:int(rng.integers(1, n + 1))])
        return idx, idx

    def _make_inds(self, a, seeds, use_ellipsis):
        r = a.dense.ndim
        inds, arrs = [], []
        for k in range(r):
            s = seeds[k % len(seeds)] + 31 * k
            o, arr = self._index(a.dense.shape[k], s % 7 if (s // 7) % 3 else 1, s)
            inds.append(o)
            arrs.append(arr)
        py = list(inds)
        if use_ellipsis % 4 == 1:
            # replace a run of trailing slice(None) by Ellipsis
            t = len(py)
            while t > 0 and isinstance(py[t - 1], slice) and py[t - 1] == slice(None):
                t -= 1
            if t < len(py):
                py = py[:t] + [Ellipsis]
        elif use_ellipsis % 4 == 2:
            t = len(py)
            while t > 0 and isinstance(py[t - 1], slice) and py[t - 1] == slice(None):
                t -= 1
            py = py[:max(t, 1)]
        return inds, arrs, tuple(py) if len(py) != 1 or use_ellipsis % 2 else py[0]

    def _apply_index(self, dense, arrs):
        d = dense
        for k, arr in enumerate(arrs):
            d = np.take(d, np.atleast_1d(arr), axis=k)
        keep = [k for k, arr in enumerate(arrs) if np.ndim(arr) == 1]
        drop = tuple(k for k, arr in enumerate(arrs) if np.ndim(arr) == 0)
        return (np.squeeze(d, axis=drop) if drop else d), keep, drop

    def op_getitem(self, i, s0, s1, s2, use_ellipsis):
        a = self.pick(i)
        inds, arrs, py = self._make_inds(a, [s0, s1, s2], use_ellipsis)
        exp, keep, drop = self._apply_index(a.dense, arrs)
        if a.multi:
            self.nontrivial_ops += 1
        res = a.arr[py]
        if not keep:
            self.classes.add('getitem-scalar')
            return self.scalar(res, exp, a)
        qt = a.qtotal.copy()
        for k in drop:
            qt = qt - a.legq[k][int(arrs[k])]
        ent = Ent(res, exp, [a.labels[k] for k in keep], self.mv(qt), [a.legq[k][arrs[k]] for k in keep], [a.legc[k] for k in keep],
                  a.exact, self.new_name())
        ent.multi = a.multi
        self.classes.add('getitem-adv')
        return [self.add(ent)]

    def op_take_slice(self, i, nax, seed, style):
        a = self.pick(i)
        r = a.dense.ndim
        rng = np.random.default_rng(seed)
        n = 1 + nax % min(2, r) if r > 1 else 1
        if n >= r:
            n = r - 1
        if n <= 0:
            raise SkipOp()
        axes = [int(x) for x in rng.permutation(r)[:n]]
        idx = [int(rng.integers(0, a.dense.shape[x])) for x in axes]
        sl = [slice(None)] * r
        qt = a.qtotal.copy()
        for x, v in zip(axes, idx):
            sl[x] = v
            qt = qt - a.legq[x][v]
        exp = a.dense[tuple(sl)]
        keep = [k for k in range(r) if k not in axes]
        axs = self._axes_spec(a, axes, style)
        if n == 1 and seed % 2:
            res = a.arr.take_slice(idx[0], axs[0])
        else:
            res = a.arr.take_slice(idx, axs)
        ent = Ent(res, exp, [a.labels[k] for k in keep], self.mv(qt), [a.legq[k] for k in keep], [a.legc[k] for k in keep], a.exact,
                  self.new_name())
        ent.multi = a.multi
        return [self.add(ent)]

    def op_setitem(self, i, s0, s1, s2, use_ellipsis, mode, fillseed):
        a = self.pick(i)
        b, perm = self.make_like(a, 1, False, fillseed)  # same legs, same axis order, same qtotal
        inds, arrs, py = self._make_inds(a, [s0, s1, s2], use_ellipsis)
        r = a.dense.ndim
        int_only = all(np.ndim(x) == 0 for x in arrs)
        self.mark_inplace(a)
        newd = a.dense.copy()
        if int_only:
            pos = tuple(int(x) for x in arrs)
            # the position must be compatible with the charge rule
            q = sum(a.legq[k][pos[k]] for k in range(r))
            if not np.array_equal(self.mv(q), a.qtotal):
                # documented: IndexError for incompatible charges
                try:
                    a.arr[py] = 1.0
                except IndexError:
                    self.classes.add('setitem-incompatible-IndexError')
                    return [a]
                raise Violation('setitem-incompatible-no-error', 'assigning an entry violating the charge rule did not raise', op=self.opname)
            val = b.dense[pos]
            if val == 0:
                val = b.dense.dtype.type(2)
            a.arr[py] = val
            newd[pos] = val
            a.dense = newd
            a.exact = a.exact and b.exact
            self.classes.add('setitem-scalar')
            return [a]
        ix = np.ix_(*[np.atleast_1d(x) for x in arrs])
        sub, keep, drop = self._apply_index(b.dense, arrs)
        newd[ix] = b.dense[ix]
        if mode % 2 == 0:
            other = b.arr[py]
            if not isinstance(other, self.npc.Array):
                raise SkipOp()
            self.classes.add('setitem-npc')
        else:
            other = sub
            self.classes.add('setitem-ndarray')
        if a.multi:
            self.nontrivial_ops += 1
        a.arr[py] = other
        a.dense = newd
        a.exact = a.exact and b.exact
        return [a, b]

    def op_iproject(self, i, nax, seed, style, intmask):
        a = self.pick(i)
        r = a.dense.ndim
        rng = np.random.default_rng(seed)
        n = 1 + nax % min(2, r)
        axes = [int(x) for x in rng.permutation(r)[:n]]
        masks = []
        exp = a.dense
        legq = list(a.legq)
        for x in axes:
            m = rng.integers(0, 3, size=a.dense.shape[x]) > 0
            if not m.any():
                m[int(rng.integers(0, len(m)))] = True
            keep = np.nonzero(m)[0]
            exp = np.take(exp, keep, axis=x)
            legq[x] = legq[x][keep]
            if intmask % 2:
                masks.append(rng.permutation(keep))  # int mask: order ignored (documented)
            else:
                masks.append(m)
        axs = self._axes_spec(a, axes, style)
        self.mark_inplace(a)
        if n == 1 and seed % 2:
            a.arr.iproject(masks[0], axs[0])
        else:
            a.arr.iproject(masks, axs)
        a.dense, a.legq = exp, legq
        if a.multi:
            self.nontrivial_ops += 1
        return [a]

    def op_permute(self, i, ax, seed, style):
        a = self.pick(i)
        r = a.dense.ndim
        x = ax % r
        rng = np.random.default_rng(seed)
        perm = rng.permutation(a.dense.shape[x])
        exp = np.take(a.dense, perm, axis=x)
        legq = list(a.legq)
        legq[x] = legq[x][perm]
        res = a.arr.permute(perm if seed % 2 else [int(p) for p in perm], self._axes_spec(a, [x], style)[0])
        ent = Ent(res, exp, a.labels, a.qtotal, legq, a.legc, a.exact, self.new_name())
        ent.multi = a.multi
        if a.multi:
            self.nontrivial_ops += 1
        return [self.add(ent)]

    def op_concatenate(self, i, ax, n, fillseed, copy, style):
        a = self.pick(i)
        r = a.dense.ndim
        x = ax % r
        parts = [a]
        n = 1 + n % 3
        for k in range(n - 1):
            # partner: same legs except along x, where we take another pool leg (or the same, maybe conjugated-flipped)
            pl = self.pool[(fillseed + k) % len(self.pool)]
            if (fillseed >> (k + 3)) & 1:
                pl = pl.flip_charges_qconj() if False else pl
            legs = list(a.arr.legs)
            # qconj along the axis may differ between the arrays: documented handling via charges flip
            legs[x] = pl if pl.qconj == a.arr.legs[x].qconj or (fillseed >> k) & 1 else pl
            tspec = {'fill': {'kind': 'int' if a.exact else 'gauss', 'seed': fillseed + k, 'absent': [0, 3][k % 2], 'zero': 0,
                              'order': 'shuffled', 'dt': str(a.arr.dtype) if str(a.arr.dtype) in ('float64', 'complex128') else 'float64'},
                     'labels': a.labels if k % 2 else [None] * r, 'qt': 'arb', 'qarb': ([int(q) for q in a.qtotal] + [0, 0, 0, 0])[:4]}
            size = a.dense.size // max(1, a.dense.shape[x]) * legs[x].ind_len
            if size > MAX_SIZE:
                raise SkipOp()
            parts.append(self.new_tensor(tspec, legs))
        tot = sum(p.dense.shape[x] for p in parts) * (a.dense.size // max(1, a.dense.shape[x]))
        if tot > MAX_SIZE:
            raise SkipOp()
        exp = np.concatenate([p.dense for p in parts], axis=x)
        legq = list(a.legq)
        legq[x] = np.concatenate([p.legq[x] for p in parts], axis=0)
        res = self.npc.concatenate([p.arr for p in parts], self._axes_spec(a, [x], style)[0], copy=bool(copy % 2))
        ent = Ent(res, exp, a.labels, a.qtotal, legq, a.legc, all(p.exact for p in parts), self.new_name())
        ent.multi = any(p.multi for p in parts)
        if copy % 2 == 0:
            for p in parts:
                self.alias(p, ent)
        if len(parts) > 1:
            self.nontrivial_ops += 1
        self.classes.add('concatenate')
        return [self.add(ent)] + parts[1:]

    def op_grid_concat(self, i, fillseed, none_mask, copy):
        """2D grid over the first two axes of a: legs for rows/cols from the pool."""
        a = self.pick(i)
        r = a.dense.ndim
        if r < 2:
            raise SkipOp()
        ax0, ax1 = 0, r - 1
        rows = [a.arr.legs[ax0], self.pool[fillseed % len(self.pool)]]
        cols = [a.arr.legs[ax1], self.pool[(fillseed // 5) % len(self.pool)]]
        rows = [l if l.qconj == rows[0].qconj else l.conj() for l in rows]
        cols = [l if l.qconj == cols[0].qconj else l.conj() for l in cols]
        grid = [[None, None], [None, None]]
        ents = [[None, None], [None, None]]
        k = 0
        for x in range(2):
            for y in range(2):
                if x == 0 and y == 0:
                    grid[0][0], ents[0][0] = a.arr, a
                    continue
                k += 1
                if (none_mask >> k) & 1 and k != 3 or (none_mask % 5 == 0 and k == 3 and not (none_mask >> 1) & 1 and not (none_mask >> 2) & 1):
                    continue
                legs = list(a.arr.legs)
                legs[ax0], legs[ax1] = rows[x], cols[y]
                if int(np.prod([l.ind_len for l in legs])) > MAX_SIZE // 4:
                    raise SkipOp()
                tspec = {'fill': {'kind': 'int' if a.exact else 'gauss', 'seed': fillseed + k, 'absent': [0, 3][k % 2], 'zero': 0,
                                  'order': 'shuffled', 'dt': str(a.arr.dtype) if str(a.arr.dtype) in ('float64', 'complex128') else 'float64'},
                         'labels': a.labels, 'qt': 'arb', 'qarb': ([int(q) for q in a.qtotal] + [0, 0, 0, 0])[:4]}
                e = self.new_tensor(tspec, legs)
                grid[x][y], ents[x][y] = e.arr, e
        # every row/col needs a non-None entry: guaranteed for row 0 / col 0 through `a`; row1/col1 need one
        if grid[1][0] is None and grid[1][1] is None or grid[0][1] is None and grid[1][1] is None:
            raise SkipOp()

        def dn(x, y):
            if ents[x][y] is not None:
                return ents[x][y].dense
            shape = list(a.dense.shape)
            shape[ax0], shape[ax1] = rows[x].ind_len, cols[y].ind_len
            return np.zeros(shape, dtype=a.dense.dtype)
        exp = np.concatenate([np.concatenate([dn(x, 0), dn(x, 1)], axis=ax1) for x in range(2)], axis=ax0)
        if exp.size > MAX_SIZE:
            raise SkipOp()
        legq = list(a.legq)
        legq[ax0] = np.concatenate([self.legq_of(l) for l in rows], axis=0)
        legq[ax1] = np.concatenate([self.legq_of(l) for l in cols], axis=0)
        res = self.npc.grid_concat(grid, [ax0, ax1], copy=bool(copy % 2))
        allents = [e for rw in ents for e in rw if e is not None]
        ent = Ent(res, exp, a.labels, a.qtotal, legq, a.legc, all(e.exact for e in allents), self.new_name())
        ent.multi = True
        if copy % 2 == 0:
            for e in allents:
                self.alias(e, ent)
        self.nontrivial_ops += 1
        self.classes.add('grid_concat' + ('-None' if len(allents) < 4 else ''))
        return [self.add(ent)]

    # -- legs -------------------------------------------------------------------------------------
    def op_add_trivial_leg(self, i, ax, lab, qc):
        a = self.pick(i)
        r = a.dense.ndim
        if r >= MAX_RANK:
            raise SkipOp()
        x = ax % (r + 1)
        label = [None, 'triv', 'z'][lab % 3]
        if label in a.labels:
            label = None
        qconj = [1, -1][qc % 2]
        res = a.arr.add_trivial_leg(x if lab % 2 else x - r if x < r else x, label, qconj)
        exp = np.expand_dims(a.dense, x)
        z = np.zeros((1, self.qn), dtype=np.int64)
        ent = Ent(res, exp, a.labels[:x] + [label] + a.labels[x:], a.qtotal, a.legq[:x] + [z] + a.legq[x:],
                  a.legc[:x] + [qconj] + a.legc[x:], a.exact, self.new_name())
        ent.multi = a.multi
        self.alias(a, ent)  # documented "(possibly) shallow copy"
        return [self.add(ent)]

    def op_add_leg(self, i, pl, idx, ax, lab):
        a = self.pick(i)
        r = a.dense.ndim
        leg = self.pool[pl % len(self.pool)]
        if pl % 2:
            leg = leg.conj()
        if r >= MAX_RANK or a.dense.size * leg.ind_len > MAX_SIZE:
            raise SkipOp()
        x = ax % (r + 1)
        k = idx % leg.ind_len
        label = [None, 'new'][lab % 2]
        if label in a.labels:
            label = None
        res = a.arr.add_leg(leg, k, x, label)
        shape = list(a.dense.shape)
        shape.insert(x, leg.ind_len)
        exp = np.zeros(shape, dtype=a.dense.dtype)
        sl = [slice(None)] * (r + 1)
        sl[x] = k
        exp[tuple(sl)] = a.dense
        lq = self.legq_of(leg)
        ent = Ent(res, exp, a.labels[:x] + [label] + a.labels[x:], self.mv(a.qtotal + lq[k]), a.legq[:x] + [lq] + a.legq[x:],
                  a.legc[:x] + [leg.qconj] + a.legc[x:], a.exact, self.new_name())
        ent.multi = a.multi
        return [self.add(ent)]

    def op_extend(self, i, ax, extra, style):
        a = self.pick(i)
        r = a.dense.ndim
        x = ax % r
        if extra % 2:
            ex = 1 + (extra // 2) % 3
            n_new = ex
            newq = np.zeros((ex, self.qn), dtype=np.int64)
        else:
            l = self.pool[(extra // 2) % len(self.pool)]
            if (extra // 7) % 2:
                l = l.conj()
            if l.qconj != a.arr.legs[x].qconj:
                self.classes.add('extend-opposite-qconj')
            ex = l
            n_new = l.ind_len
            newq = self.legq_of(l)
        if a.dense.size // max(1, a.dense.shape[x]) * (a.dense.shape[x] + n_new) > MAX_SIZE:
            raise SkipOp()
        res = a.arr.extend(self._axes_spec(a, [x], style)[0], ex)
        pad = [(0, 0)] * r
        pad[x] = (0, n_new)
        exp = np.pad(a.dense, pad)
        legq = list(a.legq)
        legq[x] = np.concatenate([legq[x], newq], axis=0)
        ent = Ent(res, exp, a.labels, a.qtotal, legq, a.legc, a.exact, self.new_name())
        ent.multi = a.multi
        return [self.add(ent)]

    def op_squeeze(self, i, sel, style):
        a = self.pick(i)
        r = a.dense.ndim
        ones = [k for k in range(r) if a.dense.shape[k] == 1]
        if not ones:
            raise SkipOp()
        if sel % 3 == 0:
            axes = None
            chosen = ones
        else:
            chosen = [k for n, k in enumerate(ones) if (sel >> (n + 2)) & 1] or [ones[0]]
            axes = self._axes_spec(a, chosen, style)
            if len(chosen) == 1 and sel % 2:
                axes = axes[0]
        res = a.arr.squeeze(axes)
        exp = np.squeeze(a.dense, axis=tuple(chosen))
        if len(chosen) == r:
            return self.scalar(res, exp, a)
        qt = a.qtotal.copy()
        for k in chosen:
            qt = qt - a.legq[k][0]
        keep = [k for k in range(r) if k not in chosen]
        ent = Ent(res, exp, [a.labels[k] for k in keep], self.mv(qt), [a.legq[k] for k in keep], [a.legc[k] for k in keep], a.exact,
                  self.new_name())
        ent.multi = a.multi
        return [self.add(ent)]

    def op_gauge(self, i, ax, q, qc, style):
        a = self.pick(i)
        r = a.dense.ndim
        x = ax % r
        newq = self.mv(np.array([(q >> (2 * k)) % 4 - 1 for k in range(self.qn)], dtype=np.int64))
        new_qconj = [None, 1, -1][qc % 3]
        if q % 5 == 0:
            res = a.arr.gauge_total_charge(self._axes_spec(a, [x], style)[0])
            newq = self.mv(np.zeros(self.qn, dtype=np.int64))
            new_qconj = None
        else:
            res = a.arr.gauge_total_charge(self._axes_spec(a, [x], style)[0], newq, new_qconj)
        legq = list(a.legq)
        legq[x] = self.mv(legq[x] + (newq - a.qtotal)[None, :]) if self.qn else legq[x]
        legc = list(a.legc)
        if new_qconj is not None:
            legc[x] = new_qconj
        ent = Ent(res, a.dense, a.labels, newq, legq, legc, a.exact, self.new_name())
        ent.multi = a.multi
        self.alias(a, ent)  # documented shallow copy
        return [self.add(ent)]

    def op_copy(self, i, deep):
        a = self.pick(i)
        res = a.arr.copy(deep=bool(deep % 2))
        ent = Ent(res, a.dense, a.labels, a.qtotal, a.legq, a.legc, a.exact, self.new_name())
        ent.multi = a.multi
        if not deep % 2:
            self.alias(a, ent)
        return [self.add(ent)]

    def op_astype(self, i, dt, copy):
        a = self.pick(i)
        cur = a.dense.dtype
        target = [np.dtype('complex128'), np.dtype('float64'), cur][dt % 3]
        if cur.kind == 'c' and target.kind != 'c':
            target = cur
        res = a.arr.astype(target, copy=bool(copy % 2))
        ent = Ent(res, a.dense.astype(target), a.labels, a.qtotal, a.legq, a.legc, a.exact, self.new_name())
        ent.multi = a.multi
        if not copy % 2 and target == cur:
            self.alias(a, ent)
        return [self.add(ent)]

    def op_purge(self, i, cutoff):
        a = self.pick(i)
        self.mark_inplace(a)
        ret = a.arr.ipurge_zeros(*([] if cutoff % 2 else [1e-12]))
        require(ret is a.arr, 'inplace-returns-self', 'ipurge_zeros', op=self.opname)
        return [a]

    def op_norm(self, i, o):
        a = self.pick(i)
        flat = a.dense.ravel()
        # (all orders at once: the interesting cases - e.g. -inf on a tensor whose blocks cover every entry - are rare per order)
        for k, ordv in enumerate([None, 1, 2, np.inf, 0, -np.inf, 3, 0.5]):
            res = self.npc.norm(a.arr, ordv) if (o + k) % 2 else a.arr.norm(ordv)
            if ordv == 0:
                exp = np.count_nonzero(flat)
            elif ordv == -np.inf:
                exp = np.min(np.abs(flat)) if flat.size else 0.
            elif ordv in (3, 0.5):
                exp = np.sum(np.abs(flat) ** ordv) ** (1. / ordv) if flat.size else 0.
            else:
                exp = np.linalg.norm(flat, ordv) if flat.size else 0.
            require(abs(res - exp) <= 1e-12 * max(1., abs(exp)), 'norm', 'ord=%r: got %r expected %r' % (ordv, res, exp), op=self.opname, ord=str(ordv))
        return 'scalar'

    def op_unary(self, i, f, inplace):
        a = self.pick(i)
        fn, np_fn = [(np.real, np.real), (np.imag, np.imag), (np.abs, np.abs), (np.square, np.square)][f % 4]
        exp = np_fn(a.dense)
        exact = a.exact and not (f % 4 == 2 and a.dense.dtype.kind == 'c')
        if inplace % 2:
            a.exact = exact
            self.mark_inplace(a)
            ret = a.arr.iunary_blockwise(fn)
            require(ret is a.arr, 'inplace-returns-self', 'iunary_blockwise', op=self.opname)
            if a.arr.stored_blocks == 0:
                exp = exp.astype(a.arr.dtype)  # dtype only changes when there is a block (documented implementation note)
            a.dense = exp
            return [a]
        res = a.arr.unary_blockwise(fn)
        if a.arr.stored_blocks == 0:
            exp = exp.astype(a.arr.dtype)
        ent = Ent(res, exp, a.labels, a.qtotal, a.legq, a.legc, exact, self.new_name())
        ent.multi = a.multi
        self.alias(a, ent)
        return [self.add(ent)]

    def op_from_ndarray(self, i, mode):
        """Round trip through from_ndarray / detect_qtotal / zeros_like / eye_like / diag."""
        a = self.pick(i)
        npc = self.npc
        m = mode % 4
        if m == 0:
            res = npc.Array.from_ndarray(a.dense.copy(), a.arr.legs, dtype=a.dense.dtype, qtotal=a.qtotal.copy(), labels=a.labels)
            if np.any(a.dense != 0):
                q = npc.detect_qtotal(a.dense, a.arr.legs)
                require(np.array_equal(self.mv(q), a.qtotal), 'detect_qtotal', '%s vs %s' % (q, a.qtotal), op=self.opname)
            ent = Ent(res, a.dense, a.labels, a.qtotal, a.legq, a.legc, a.exact, self.new_name())
        elif m == 1:
            res = a.arr.zeros_like()
            ent = Ent(res, np.zeros_like(a.dense), a.labels, a.qtotal, a.legq, a.legc, True, self.new_name())
        elif m == 2:
            x = (mode // 4) % a.dense.ndim
            res = npc.eye_like(a.arr, x, labels=['i', 'j'])
            n = a.dense.shape[x]
            ent = Ent(res, np.eye(n), ['i', 'j'], self.mv(np.zeros(self.qn, dtype=np.int64)), [a.legq[x], self.mv(-a.legq[x])],
                      [a.legc[x], None if a.legc[x] is None else -a.legc[x]], True, self.new_name())
        else:
            x = (mode // 4) % a.dense.ndim
            n = a.dense.shape[x]
            s = np.arange(1, n + 1).astype(float) * (1 if mode % 8 < 4 else 1j)
            res = npc.diag(s, a.arr.legs[x], labels=['i', 'j'])
            ent = Ent(res, np.diag(s), ['i', 'j'], self.mv(np.zeros(self.qn, dtype=np.int64)), [a.legq[x], self.mv(-a.legq[x])],
                      [a.legc[x], None if a.legc[x] is None else -a.legc[x]], True, self.new_name())
        ent.multi = a.multi
        return [self.add(ent)]

    def op_labels(self, i, mode, seed):
        a = self.pick(i)
        r = a.dense.ndim
        m = mode % 4
        rng = np.random.default_rng(seed)
        fresh = ['x%d' % k for k in range(r)]
        if m == 0:
            self.mark_inplace(a)
            new = [fresh[k] if rng.integers(0, 3) else None for k in range(r)]
            a.arr.iset_leg_labels(new)
            a.labels = new
            return [a]
        labelled = [k for k in range(r) if a.labels[k] is not None]
        if not labelled:
            raise SkipOp()
        k = labelled[seed % len(labelled)]
        self._label_counter = getattr(self, '_label_counter', 0) + 1  # a new label must not exist on another leg (documented ValueError)
        if m == 1:
            self.mark_inplace(a)
            a.arr.ireplace_label(a.labels[k], 'R%d' % self._label_counter)
            a.labels = list(a.labels)
            a.labels[k] = 'R%d' % self._label_counter
            return [a]
        if m == 2:
            res = a.arr.replace_label(a.labels[k], 'Q%d' % self._label_counter)
            lab = list(a.labels)
            lab[k] = 'Q%d' % self._label_counter
            ent = Ent(res, a.dense, lab, a.qtotal, a.legq, a.legc, a.exact, self.new_name())
            ent.multi = a.multi
            self.alias(a, ent)
            return [self.add(ent)]
        # query functions
        require(a.arr.get_leg_index(a.labels[k]) == k, 'get_leg_index', '', op=self.opname)
        require(a.arr.get_leg_indices([a.labels[k], k - r]) == [k, k], 'get_leg_indices', '', op=self.opname)
        require(a.arr.has_label(a.labels[k]) and not a.arr.has_label('nope'), 'has_label', '', op=self.opname)
        require(a.arr.get_leg(a.labels[k]) is a.arr.legs[k], 'get_leg', '', op=self.opname)
        return []

    def op_charge_ops(self, i, mode, which):
        """drop_charge / change_charge / add_charge: dense content unchanged, per-index charges mapped."""
        a = self.pick(i)
        if self.qn == 0:
            raise SkipOp()
        m = mode % 2
        c = which % self.qn
        if m == 0:
            if self.qn == 1 or which % 3 == 0:
                res = a.arr.drop_charge()
                keepq = []
            else:
                res = a.arr.drop_charge(c)
                keepq = [k for k in range(self.qn) if k != c]
            got = res.to_ndarray()
            require(np.array_equal(got, a.dense) if a.exact else np.allclose(got, a.dense), 'dense-mismatch', 'drop_charge changed the data', op=self.opname)
            require(list(res.get_leg_labels()) == a.labels, 'labels', 'drop_charge', op=self.opname)
            for k, leg in enumerate(res.legs):
                lq = np.asarray(leg.to_qflat()).reshape(leg.ind_len, len(keepq)) * leg.qconj
                mod2 = [self.mod[x] for x in keepq]
                require(np.array_equal(D.make_valid(mod2, lq), a.legq[k][:, keepq]), 'leg-charges', 'drop_charge leg %d' % k, op=self.opname)
            require(np.array_equal(res.qtotal, a.qtotal[keepq]), 'qtotal', 'drop_charge', op=self.opname)
            if self.check_inv:
                from . import inv
                inv.check_array(res, self.opname)
            return []
        # change_charge to a subgroup modulus: U(1) -> Z_n, Z_n -> Z_d with d | n
        cur = self.mod[c]
        if cur == 1:
            newm = [2, 3, 1][which % 3]
        else:
            divs = [d for d in range(2, cur + 1) if cur % d == 0]
            newm = divs[which % len(divs)]
        res = a.arr.change_charge(c, newm, 'new')
        got = res.to_ndarray()
        require(np.array_equal(got, a.dense) if a.exact else np.allclose(got, a.dense), 'dense-mismatch', 'change_charge changed the data', op=self.opname)
        mod2 = list(self.mod)
        mod2[c] = newm
        for k, leg in enumerate(res.legs):
            lq = np.asarray(leg.to_qflat()).reshape(leg.ind_len, self.qn) * leg.qconj
            require(np.array_equal(D.make_valid(mod2, lq), D.make_valid(mod2, a.legq[k])), 'leg-charges', 'change_charge leg %d' % k, op=self.opname)
        require(np.array_equal(res.qtotal, D.make_valid(mod2, a.qtotal)), 'qtotal', 'change_charge', op=self.opname)
        if self.check_inv:
            from . import inv
            inv.check_array(res, self.opname)
        return []

    def op_eq(self, i, fillseed):
        a = self.pick(i)
        b, perm = self.make_like(a, 1, False, fillseed)
        r1 = (a.arr == a.arr.copy(deep=True))
        require(bool(r1) is True, '__eq__', 'a == copy(a) gave %r' % r1, op=self.opname)
        same = np.max(np.abs(a.dense - b.dense)) < 1e-14 if a.dense.size else True
        r2 = (a.arr == b.arr)
        require(bool(r2) == bool(same), '__eq__', 'a == b gave %r, dense says %r' % (r2, same), op=self.opname)
        return []


def op_exception(e, name):
    """Unexpected exception inside an op on a sound input: Violation tagged with the op and the chain of tenpy
    functions (harness bugs, i.e. exceptions that never entered tenpy, are re-raised unchanged)."""
    import traceback
    tb = traceback.extract_tb(e.__traceback__)
    chain = [fr.name for fr in tb if '/tenpy/' in fr.filename.replace('\\', '/')]
    if not chain:
        return e
    return Violation('unexpected-exception', '%s in %s: %s' % (type(e).__name__, '>'.join(chain), str(e)[:300]),
                     op=name, exc=type(e).__name__, path='>'.join(chain[-4:]))


def _scal(s):
    s = complex(s)
    return [s.real, s.imag]


def _leg_record(l):
    rec = {'slices': [int(x) for x in l.slices], 'charges': [[int(x) for x in r] for r in l.charges], 'qconj': int(l.qconj),
           'sorted': bool(l.sorted), 'bunched': bool(l.bunched)}
    if hasattr(l, 'legs'):
        rec['pipe'] = [_leg_record(s) for s in l.legs]
        rec['q_map'] = [[int(x) for x in r] for r in l.q_map]
    return rec


def _fingerprint(a):
    d = a.to_ndarray()
    return {'dense': (d.shape, str(d.dtype), d.tobytes()), 'labels': tuple(a.get_leg_labels()), 'qtotal': tuple(int(x) for x in a.qtotal),
            'legs': tuple(id(l) for l in a.legs), 'dtype': str(a.dtype)}


def _leg_fingerprint(l):
    data = (l.slices.tobytes(), l.charges.tobytes(), str(l.charges.shape), int(l.qconj), int(l.ind_len), int(l.block_number), id(l.chinfo))
    if hasattr(l, 'legs'):
        data = data + (tuple(id(s) for s in l.legs), l.q_map.tobytes(), l.q_map_slices.tobytes(),
                       None if l._perm is None else l._perm.tobytes(), l._strides.tobytes())
    return {'data': data, 'flags': (bool(l.sorted), bool(l.bunched))}


# ------------------------------------------------------------------------------------------------
# strategies

OPS = {
    'tensordot': 5, 'outer': 1, 'inner': 2, 'trace': 2, 'transpose': 3, 'conj': 2, 'add': 4, 'scale': 2, 'scale_axis': 2,
    'combine': 5, 'split': 5, 'sort_legcharge': 2, 'completely_blocked': 1, 'getitem': 3, 'take_slice': 1, 'setitem': 3,
    'iproject': 2, 'permute': 1, 'concatenate': 2, 'grid_concat': 1, 'add_trivial_leg': 1, 'add_leg': 1, 'extend': 1,
    'squeeze': 1, 'gauge': 1, 'copy': 1, 'astype': 1, 'purge': 1, 'norm': 1, 'unary': 1, 'from_ndarray': 1, 'labels': 1,
    'charge_ops': 1, 'eq': 1, 'new_like': 1,
}
NARGS = {'tensordot': 5, 'outer': 2, 'inner': 5, 'trace': 3, 'transpose': 4, 'conj': 2, 'add': 5, 'scale': 3, 'scale_axis': 5,
         'combine': 6, 'split': 2, 'sort_legcharge': 4, 'completely_blocked': 1, 'getitem': 5, 'take_slice': 4, 'setitem': 7,
         'iproject': 5, 'permute': 4, 'concatenate': 6, 'grid_concat': 4, 'add_trivial_leg': 4, 'add_leg': 5, 'extend': 4,
         'squeeze': 3, 'gauge': 5, 'copy': 2, 'astype': 3, 'purge': 2, 'norm': 2, 'unary': 3, 'from_ndarray': 2, 'labels': 3,
         'charge_ops': 3, 'eq': 2, 'new_like': 4}


def program_specs(tier, max_ops=8, weights=None, dtypes=('float64', 'complex128'), max_charges=2):
    from hypothesis import strategies as st
    w = dict(OPS)
    if weights:
        w.update(weights)
    names = [n for n, k in w.items() for _ in range(k)]

    @st.composite
    def progs(draw):
        pool = draw(gen.pool_specs(max_charges=max_charges, max_legs=4, max_blocks=4, max_size=3))
        nt = draw(st.integers(1, 3))
        tensors = [draw(gen.tensor_specs(len(pool['legs']), max_rank=4, dtypes=dtypes)) for _ in range(nt)]
        nops = draw(st.integers(1, max_ops))
        ops = []
        for _ in range(nops):
            name = draw(st.sampled_from(names))
            ops.append([name] + [draw(st.integers(0, 999)) for _ in range(NARGS[name])])
        return {'pool': pool, 'tensors': tensors, 'ops': ops}
    return progs()
