"""Harness-owned scheduler for the cache worker thread (C20).

``tenpy.tools.thread`` uses ``queue.Queue``, ``threading.Event`` and ``threading.Thread``.  While a case runs, the
names ``queue`` and ``threading`` *inside that module* are replaced by the shim modules below.  Only one thread
runs at a time (a baton is passed with real semaphores); at every synchronisation point the scheduler consults
a generated list of choices to decide which runnable thread continues, whether a pending ``timeout`` fires, etc.
Blocking calls never wait in real time: a ``get/put(timeout=...)`` that cannot proceed *and has no runnable peer*
times out at once; a blocking call without timeout and without runnable peer is a DEADLOCK verdict.
"""
import queue as _real_queue
import threading as _real_threading
import types


class Deadlock(Exception):
    pass


class StepLimit(Exception):
    pass


class _T:
    def __init__(self, name):
        self.name = name
        self.sem = _real_threading.Semaphore(0)
        self.state = 'runnable'  # runnable | blocked | finished
        self.blocked_on = None  # (kind, obj, has_timeout)
        self.timed_out = False
        self.real = None


class Scheduler:
    def __init__(self, choices, max_steps=20000):
        self.choices = list(choices) or [0]
        self.pos = 0
        self.steps = 0
        self.max_steps = max_steps
        self.switches = 0
        self.timeouts_fired = 0
        self.threads = []
        self.main = _T('main')
        self.threads.append(self.main)
        self.current = self.main
        self.by_ident = {_real_threading.get_ident(): self.main}
        self.failed = None
        self.trace = []

    # -- helpers ---------------------------------------------------------------------------------
    def me(self):
        return self.by_ident[_real_threading.get_ident()]

    def choice(self, n):
        c = self.choices[self.pos % len(self.choices)]
        self.pos += 1
        return c % n

    def _can_proceed(self, t):
        if t.state == 'finished':
            return False
        if t.state == 'runnable':
            return True
        kind, obj, has_timeout = t.blocked_on
        if kind == 'get':
            return len(obj.items) > 0
        if kind == 'put':
            return obj.maxsize <= 0 or len(obj.items) < obj.maxsize
        if kind == 'join_queue':
            return obj.unfinished == 0
        if kind == 'join_thread':
            return obj._t is None or obj._t.state == 'finished'
        return False

    def _step(self):
        self.steps += 1
        if self.steps > self.max_steps:
            self.failed = 'step-limit'
            raise StepLimit('more than %d scheduler steps (livelock?)' % self.max_steps)

    def yield_point(self, what=''):
        """Possibly hand the baton to another thread that can proceed."""
        self._step()
        me = self.me()
        others = [t for t in self.threads if t is not me and self._can_proceed(t)]
        if others and self.choice(3) == 1:
            self._switch(me, others[self.choice(len(others))])

    def block(self, kind, obj, has_timeout):
        """Called when the current thread cannot proceed. Returns True if it can proceed now, False on timeout."""
        me = self.me()
        me.state = 'blocked'
        me.blocked_on = (kind, obj, has_timeout)
        while True:
            self._step()
            if self._can_proceed(me):
                # may still let the other thread run first
                me.state = 'runnable'
                me.blocked_on = None
                return True
            others = [t for t in self.threads if t is not me and self._can_proceed(t)]
            if has_timeout and (not others or (not getattr(me, 'last_spurious', False) and self.choice(8) == 7)):
                # virtual timeout (always when nobody else can run; sometimes spuriously, but never twice in a
                # row while a peer is runnable: the real scheduler is fair)
                self.timeouts_fired += 1
                me.last_spurious = bool(others)
                me.state = 'runnable'
                me.blocked_on = None
                return False
            me.last_spurious = False
            if not others:
                # nobody can run and we wait without timeout: maybe another blocked thread has a timeout
                waiting = [t for t in self.threads if t is not me and t.state == 'blocked' and t.blocked_on[2]]
                if waiting:
                    t = waiting[0]
                    t.timed_out = True
                    self._switch(me, t)
                    continue
                self.failed = 'deadlock'
                raise Deadlock('thread %s blocks forever in %s; states: %s' % (
                    me.name, kind, [(t.name, t.state, t.blocked_on[0] if t.blocked_on else None) for t in self.threads]))
            self._switch(me, others[self.choice(len(others))])

    def _switch(self, me, other):
        self.switches += 1
        self.current = other
        other.sem.release()
        me.sem.acquire()
        self.current = me
        if self.failed and me is not self.main:
            raise SystemExit  # unwind worker threads after a verdict

    def thread_finished(self, t):
        t.state = 'finished'
        # hand the baton to somebody who can proceed (or is waiting with a timeout / for this thread)
        for o in self.threads:
            if o is not t and o.state != 'finished':
                self.current = o
                if o.state == 'blocked' and not self._can_proceed(o) and o.blocked_on[2]:
                    o.timed_out = True
                o.sem.release()
                return

    def shutdown(self):
        """Release all remaining threads (after a verdict) so that no thread outlives the case."""
        self.failed = self.failed or 'shutdown'
        for t in self.threads:
            if t is not self.main and t.state != 'finished':
                t.sem.release()
        for t in self.threads:
            if t.real is not None:
                t.real.join(timeout=2.0)


def make_shims(sched):
    class Queue:
        def __init__(self, maxsize=0):
            self.maxsize = maxsize
            self.items = []
            self.unfinished = 0

        def put(self, item, block=True, timeout=None):
            sched.yield_point('put')
            while self.maxsize > 0 and len(self.items) >= self.maxsize:
                me = sched.me()
                me.timed_out = False
                ok = sched.block('put', self, timeout is not None)
                if not ok or (me.timed_out and self.maxsize > 0 and len(self.items) >= self.maxsize):
                    raise _real_queue.Full()
            self.items.append(item)
            self.unfinished += 1

        def get(self, block=True, timeout=None):
            sched.yield_point('get')
            while not self.items:
                me = sched.me()
                me.timed_out = False
                ok = sched.block('get', self, timeout is not None)
                if not ok or (me.timed_out and not self.items):
                    raise _real_queue.Empty()
            return self.items.pop(0)

        def task_done(self):
            if self.unfinished <= 0:
                raise ValueError('task_done() called too many times')
            self.unfinished -= 1
            sched.yield_point('task_done')

        def join(self):
            sched.yield_point('join')
            while self.unfinished > 0:
                sched.block('join_queue', self, False)

        def empty(self):
            return not self.items

        def qsize(self):
            return len(self.items)

    class Event:
        def __init__(self):
            self.flag = False

        def set(self):
            self.flag = True
            sched.yield_point('event.set')

        def is_set(self):
            sched.yield_point('event.is_set')
            return self.flag

        def clear(self):
            self.flag = False

    class Thread:
        def __init__(self, target=None, name=None, daemon=None, args=(), kwargs=None):
            self.target = target
            self.name = name or 'thread'
            self.args = args
            self.kwargs = kwargs or {}
            self._t = None
            self.exc = None

        def start(self):
            t = _T(self.name)
            self._t = t
            sched.threads.append(t)

            def body():
                sched.by_ident[_real_threading.get_ident()] = t
                t.sem.acquire()  # wait for the baton
                try:
                    if not sched.failed:
                        self.target(*self.args, **self.kwargs)
                except (SystemExit, Deadlock, StepLimit):
                    pass
                except BaseException as e:  # noqa
                    self.exc = e
                finally:
                    sched.thread_finished(t)
            t.real = _real_threading.Thread(target=body, name=self.name, daemon=True)
            t.real.start()
            sched.yield_point('thread.start')

        def is_alive(self):
            return self._t is not None and self._t.state != 'finished'

        def join(self, timeout=None):
            sched.yield_point('thread.join')
            while self._t is not None and self._t.state != 'finished':
                ok = sched.block('join_thread', self, timeout is not None)
                if not ok:
                    return

    qmod = types.ModuleType('queue_shim')
    qmod.Queue = Queue
    qmod.Empty = _real_queue.Empty
    qmod.Full = _real_queue.Full
    tmod = types.ModuleType('threading_shim')
    tmod.Event = Event
    tmod.Thread = Thread
    tmod.get_ident = _real_threading.get_ident
    tmod.current_thread = _real_threading.current_thread
    return qmod, tmod


class installed:
    """Context manager: run tenpy.tools.thread under the scheduler."""

    def __init__(self, choices, max_steps=20000):
        self.sched = Scheduler(choices, max_steps)

    def __enter__(self):
        import tenpy.tools.thread as tt
        self.tt = tt
        self.saved = (tt.queue, tt.threading)
        tt.queue, tt.threading = make_shims(self.sched)
        return self.sched

    def __exit__(self, *exc):
        try:
            self.sched.shutdown()
        finally:
            self.tt.queue, self.tt.threading = self.saved
        return False
