"""Stage the *current working tree* of /repo into a scratch directory, with a Cython binary that
is built from the staged ``.pyx`` (never the prebuilt, possibly stale, binary lying in /repo).

The binary cache under ``/var/tmp/tenpy-vf-socache`` is an accelerator only; a miss rebuilds.
"""
import hashlib
import os
import shutil
import subprocess
import sys
import tempfile
import glob

REPO = os.environ.get('VF_REPO', '/repo')
PY = os.environ.get('VF_PYTHON', '/venv/bin/python')
CACHE = os.environ.get('VF_SOCACHE', '/var/tmp/tenpy-vf-socache')
VERIF = os.path.dirname(os.path.dirname(os.path.abspath(__file__)))


class HarnessError(Exception):
    pass


def _so_key():
    h = hashlib.sha256()
    for rel in ['tenpy/linalg/_npc_helper.pyx', 'tenpy/linalg/_cblas_mkl.pxd', 'setup.py']:
        p = os.path.join(REPO, rel)
        h.update(rel.encode())
        if os.path.exists(p):
            with open(p, 'rb') as f:
                h.update(f.read())
    out = subprocess.run([PY, '-c', 'import sys, numpy, Cython; print(sys.version, numpy.__version__, Cython.__version__)'],
                         capture_output=True, text=True)
    h.update(out.stdout.encode())
    return h.hexdigest()[:24]


def _ignore(d, names):
    return [n for n in names if n == '__pycache__' or n.endswith(('.so', '.cpp', '.c', '.pyc', '.html'))
            or n == 'build']


def stage(need_cy=True, quiet=False):
    """Return ``(scratch_dir, info)``; the caller removes ``scratch_dir`` when done."""
    scratch = tempfile.mkdtemp(prefix='vf-tree-')
    info = {'scratch': scratch, 'cython': False}
    shutil.copytree(os.path.join(REPO, 'tenpy'), os.path.join(scratch, 'tenpy'), ignore=_ignore)
    for f in ['setup.py', 'pyproject.toml', 'README.rst', 'MANIFEST.in']:
        p = os.path.join(REPO, f)
        if os.path.exists(p):
            shutil.copy(p, scratch)
    with open(os.path.join(REPO, 'tenpy/linalg/_npc_helper.pyx'), 'rb') as f:
        info['pyx_sha'] = hashlib.sha256(f.read()).hexdigest()[:16]
    if need_cy:
        key = _so_key()
        info['so_key'] = key
        os.makedirs(CACHE, exist_ok=True)
        cached = os.path.join(CACHE, key + '.so')
        soname = None
        if not os.path.exists(cached):
            if not quiet:
                print('[vf.build] building Cython extension from staged .pyx ...', flush=True)
            env = dict(os.environ)
            env.pop('PYTHONPATH', None)
            r = subprocess.run([PY, 'setup.py', 'build_ext', '--inplace'], cwd=scratch, env=env,
                               capture_output=True, text=True)
            sos = glob.glob(os.path.join(scratch, 'tenpy/linalg/_npc_helper*.so'))
            if r.returncode != 0 or not sos:
                shutil.rmtree(scratch, ignore_errors=True)
                raise HarnessError('build of _npc_helper failed:\n' + r.stdout[-2000:] + r.stderr[-4000:])
            soname = os.path.basename(sos[0])
            tmp = cached + '.%d.tmp' % os.getpid()
            shutil.copy(sos[0], tmp)
            with open(cached + '.name', 'w') as f:
                f.write(soname)
            os.replace(tmp, cached)
            shutil.rmtree(os.path.join(scratch, 'build'), ignore_errors=True)
            for c in glob.glob(os.path.join(scratch, 'tenpy/linalg/*.cpp')):
                os.remove(c)
            # LRU: keep at most 3 binaries
            ents = sorted(glob.glob(os.path.join(CACHE, '*.so')), key=os.path.getmtime)
            for old in ents[:-3]:
                for p in (old, old + '.name'):
                    try:
                        os.remove(p)
                    except OSError:
                        pass
        else:
            with open(cached + '.name') as f:
                soname = f.read().strip()
            shutil.copy(cached, os.path.join(scratch, 'tenpy/linalg', soname))
            os.utime(cached)
        info['cython'] = True
    # byte-compile once, so that 16 workers do not all do it
    subprocess.run([PY, '-m', 'compileall', '-q', os.path.join(scratch, 'tenpy')], capture_output=True)
    return scratch, info


def child_env(scratch, config='cy', extra=None):
    env = dict(os.environ)
    env['PYTHONPATH'] = scratch + os.pathsep + VERIF
    env['PYTHONHASHSEED'] = '0'
    env['OMP_NUM_THREADS'] = '1'
    env['OPENBLAS_NUM_THREADS'] = '1'
    env['MKL_NUM_THREADS'] = '1'
    env['VF_SCRATCH_TREE'] = scratch
    env['VF_CONFIG'] = config
    env.pop('TENPY_OPTIMIZE', None)
    if config == 'py':
        env['TENPY_NO_CYTHON'] = '1'
    else:
        env.pop('TENPY_NO_CYTHON', None)
    if extra:
        env.update(extra)
    return env


def assert_tree():
    """Called inside a child: make sure we test the staged tree in the intended configuration."""
    import tenpy
    from tenpy.tools import optimization
    scratch = os.environ['VF_SCRATCH_TREE']
    if not os.path.abspath(tenpy.__file__).startswith(os.path.abspath(scratch)):
        raise HarnessError('tenpy imported from %s, not from staged tree %s' % (tenpy.__file__, scratch))
    want = os.environ.get('VF_CONFIG', 'cy') == 'cy'
    import tenpy.linalg.np_conserved  # noqa: F401  triggers use_cython
    if bool(optimization.have_cython_functions) != want:
        raise HarnessError('have_cython_functions=%r but config=%s' %
                           (optimization.have_cython_functions, os.environ.get('VF_CONFIG')))


if __name__ == '__main__':
    if '--warm' in sys.argv:
        s, info = stage()
        print('[vf.build] warmed', info)
        shutil.rmtree(s, ignore_errors=True)
