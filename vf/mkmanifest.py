import json, importlib, sys, os
sys.path.insert(0, '/verif')
props = [json.loads(l) for l in open('/verif/properties.jsonl')]
claimed = {}
for p in props:
    pid = p['id']
    if os.path.exists('/verif/checks/%s.py' % pid.lower()):
        claimed[pid] = importlib.import_module('checks.' + pid.lower())
engines = {'npcprog': ['C01','C02','C03','C04','C05','C06'], 'mpsdense': ['C07','C08','C09','C11'], 'modeldense': ['C10','C12','C19'],
           'algo': ['C13','C14','C16'], 'trunc': ['C15'], 'io': ['C17','C18'], 'sched': ['C20']}
eng_of = {p: e for e, ps in engines.items() for p in ps}
checks = []
for pid, mod in claimed.items():
    m = getattr(mod, 'MANIFEST', {})
    checks.append({
        'property_id': pid,
        'quick_cmd': './check %s --tier quick' % pid,
        'thorough_cmd': './check %s --tier thorough' % pid,
        'evidence_file': '/verif/evidence/%s.json' % pid,
        'replay_cmd_template': './check %s --replay {path}' % pid,
        'engine': eng_of[pid],
        'level_claimed': {'category': getattr(mod, 'LEVEL', 'exploration'),
                          'text': m.get('text', mod.RULE), 'design_ref': 'DESIGN.md §4 ' + pid},
        'level_note': m.get('note', '; '.join(getattr(mod, 'ASSUMPTIONS', [])) or 'dense numpy/scipy reference implementations in /verif/vf are trusted'),
        'technique': m.get('technique', 'property-based testing (Hypothesis) against an independent dense / brute-force oracle'),
    })
na = [{'property_id': p['id'], 'reason': 'check not built yet (planned, see DESIGN.md §4); will be claimed once its check exists'} for p in props if p['id'] not in claimed]
man = {
    'version': 1,
    'setup_cmd': '/venv/bin/pip install -q --no-index --find-links /opt/veriftools/wheels hypothesis jsonschema >/dev/null 2>&1; cd /verif && /venv/bin/python -m vf.build --warm',
    'hooks': {'guard': 'TENPY_VERIF', 'enable': 'no source hooks: all instrumentation is monkey-patched by the harness inside the child processes that run the staged copy of the working tree',
              'baseline_off_cmd': 'cd /repo && OMP_NUM_THREADS=1 /venv/bin/python -m pytest -ra -q -p no:cacheprovider --timeout=900 --continue-on-collection-errors',
              'source_commits': [], 'add_only': True},
    'engines': [{'name': e, 'path': 'vf/', 'serves_properties': ps, 'kind_free_text': 'Hypothesis / exhaustive enumeration driver with dense oracles'} for e, ps in engines.items()],
    'checks': checks,
    'not_applicable': na,
    'notes': 'Every check stages the current working tree of /repo into a scratch dir, builds the Cython extension from the staged .pyx (cached by content hash under /var/tmp/tenpy-vf-socache, rebuilt on a miss) and runs sharded worker processes. exit 2 = harness error.',
}
json.dump(man, open('/verif/MANIFEST.json', 'w'), indent=1)
import jsonschema
jsonschema.validate(man, json.load(open('/root/.vp/MANIFEST.schema.json')))
print('manifest ok: claimed', sorted(claimed), 'n/a', len(na))
