import json, importlib, sys, os
sys.path.insert(0, '/verif')
props = [json.loads(l) for l in open('/verif/properties.jsonl')]
claimed = {}
for p in props:
    pid = p['id']
    if os.path.exists('/verif/checks/%s.py' % pid.lower()):
        claimed[pid] = importlib.import_module('checks.' + pid.lower())
engines = {'npcprog': ['C01','C02','C03','C04','C05','C06'], 'mpsdense': ['C07','C08','C09','C11'], 'modeldense': ['C10','C12','C19'],
           'algo': ['C13','C14','C16'], 'trunc': ['C15'], 'io': ['C17','C18'], 'sched': ['C20']}
eng_of = {p: e for e, ps in engines.items() for p in ps}
TECHNIQUE = {
 'C01': 'property-based testing (Hypothesis): generated np_conserved operation programs executed on block-sparse tensors and on a numpy shadow (reference-model oracle), compiled and pure-Python kernels',
 'C02': 'stateful property-based testing (Hypothesis): generated operation histories with an independent storage-invariant checker after every step',
 'C03': 'stateful property-based testing (Hypothesis): generated histories with aliased references; metamorphic oracle "every other live tensor / leg / MPS / MPO is bit-identical after the step"',
 'C04': 'differential property-based testing (Hypothesis): the same generated programs and helper inputs run under the compiled kernels and in a TENPY_NO_CYTHON child process',
 'C05': 'property-based testing (Hypothesis) with validity-predicate oracles (reconstruction, isometry, charge rule, spectra vs numpy/scipy) over generated block structures and options',
 'C06': 'exhaustive enumeration of small leg tuples plus property-based testing (Hypothesis) against an independently written fusion-order reference; round-trip combine/split',
 'C07': 'property-based testing (Hypothesis): round trip dense state -> MPS constructor -> dense state from the raw tensors',
 'C08': 'property-based testing (Hypothesis) against a dense quantum-mechanics reference model; exact-distribution oracle for sampling',
 'C09': 'model-based stateful property-based testing (Hypothesis): histories of MPS transformations mirrored on a dense state vector',
 'C10': 'differential / reference-model property-based testing (Hypothesis): every representation of a generated model converted to a dense matrix and compared with the sum of independently built terms',
 'C11': 'property-based testing (Hypothesis) against dense operator algebra; metamorphic checks (equal operators in different representations) and convergence-order measurement',
 'C12': 'exhaustive enumeration of all predefined site configurations and grouped sites, plus property-based testing (Hypothesis) of many-body Jordan-Wigner terms against reference operators',
 'C13': 'property-based testing (Hypothesis) with validity-predicate oracles (variational bound, Rayleigh quotient, canonical form, sector) and a dense eigensolver as reference on the validated convergence class',
 'C14': 'exhaustive enumeration of the Suzuki-Trotter schedules; property-based testing (Hypothesis) against scipy expm with observed-order measurement; recording wrapper around every truncation for the error accounting invariant',
 'C15': 'property-based testing (Hypothesis) against a brute-force selection-rule reference and algebraic laws of TruncationError; stateful history of truncations',
 'C16': 'property-based testing (Hypothesis) against dense eigh / eig / expm / solve on the charge sector; metamorphic relations (N_cache, E_shift)',
 'C17': 'round-trip property-based testing (Hypothesis) over generated container nestings and every exportable class found by reflection; invariant on the sharing structure',
 'C18': 'fault injection over generated crash histories (every file-system step and byte prefix of the real save procedure) with an invariant over the history; differential testing of resumed vs uninterrupted simulations',
 'C19': 'enumeration of lattice configurations against a brute-force geometric reference (differential oracle)',
 'C20': 'model-based stateful testing (Hypothesis) of caches against a dict model; schedule generation with a harness-owned scheduler replacing queue/threading; injected storage faults',
}
checks = []
for pid, mod in claimed.items():
    m = getattr(mod, 'MANIFEST', {})
    checks.append({
        'property_id': pid,
        'quick_cmd': './check %s --tier quick' % pid,
        'thorough_cmd': './check %s --tier thorough' % pid,
        'evidence_file': '/verif/evidence/%s.json' % pid,
        'replay_cmd_template': './check %s --replay {path}' % pid,
        'engine': eng_of[pid],
        'level_claimed': {'category': getattr(mod, 'LEVEL', 'exploration'),
                          'text': m.get('text', mod.RULE), 'design_ref': 'DESIGN.md §4 ' + pid},
        'level_note': m.get('note', '; '.join(getattr(mod, 'ASSUMPTIONS', [])) or 'dense numpy/scipy reference implementations in /verif/vf are trusted'),
        'technique': m.get('technique', TECHNIQUE[pid]),
    })
na = [{'property_id': p['id'], 'reason': 'check not built yet (planned, see DESIGN.md §4); will be claimed once its check exists'} for p in props if p['id'] not in claimed]
man = {
    'version': 1,
    'setup_cmd': '/venv/bin/pip install -q --no-index --find-links /opt/veriftools/wheels hypothesis jsonschema >/dev/null 2>&1; cd /verif && /venv/bin/python -m vf.build --warm',
    'hooks': {'guard': 'TENPY_VERIF', 'enable': 'no source hooks: all instrumentation is monkey-patched by the harness inside the child processes that run the staged copy of the working tree',
              'baseline_off_cmd': 'cd /repo && OMP_NUM_THREADS=1 /venv/bin/python -m pytest -ra -q -p no:cacheprovider --timeout=900 --continue-on-collection-errors',
              'source_commits': [], 'add_only': True},
    'engines': [{'name': e, 'path': 'vf/', 'serves_properties': ps, 'kind_free_text': 'Hypothesis / exhaustive enumeration driver with dense oracles'} for e, ps in engines.items()],
    'checks': checks,
    'not_applicable': na,
    'notes': 'Every check stages the current working tree of /repo into a scratch dir, builds the Cython extension from the staged .pyx (cached by content hash under /var/tmp/tenpy-vf-socache, rebuilt on a miss) and runs sharded worker processes. exit 2 = harness error.',
}
json.dump(man, open('/verif/MANIFEST.json', 'w'), indent=1)
import jsonschema
jsonschema.validate(man, json.load(open('/root/.vp/MANIFEST.schema.json')))
print('manifest ok: claimed', sorted(claimed), 'n/a', len(na))
