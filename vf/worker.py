"""Child process: runs one shard (or one replay) of one sub-check against the staged tree."""
import importlib
import json
import os
import sys
import time
import traceback
import warnings


def main():
    job = json.load(open(sys.argv[1]))
    out = {'job': job, 'ok': False}
    t0 = time.time()
    try:
        warnings.filterwarnings('ignore')
        import logging
        logging.disable(logging.WARNING)
        from vf import build, core
        build.assert_tree()
        mod = importlib.import_module('checks.' + job['property'].lower())
        subs = {s.name: s for s in mod.SUBCHECKS}
        sub = subs[job['sub']]
        known = core.load_known()
        if job.get('replay') is not None:
            res = core.ShardResult()
            try:
                core.run_case(sub, job['property'], job['replay'], known, set(), res, collect=False)
            except core.Violation as v:
                res.violations.append({'sig': getattr(v, 'sig', core.signature(sub.name, v)),
                                       'spec': job['replay'], 'msg': v.msg})
        elif sub.enumerate_fn is not None:
            res = core.run_shard_enumerated(sub, job['property'], job['tier'], job['seed'], job['shard'],
                                            job['nshards'], known)
        else:
            res = core.run_shard_hypothesis(sub, job['property'], job['tier'], job['seed'], job['n'], known,
                                            shrink=job.get('shrink', True))
        out.update(res.to_json())
        out['ok'] = True
    except BaseException as e:  # harness error
        out['error'] = ''.join(traceback.format_exception(type(e), e, e.__traceback__))[-6000:]
    out['wall'] = time.time() - t0
    tmp = sys.argv[2] + '.tmp'
    with open(tmp, 'w') as f:
        json.dump(out, f, default=_default)
    os.replace(tmp, sys.argv[2])


def _default(o):
    from vf.core import _default as d
    return d(o)


if __name__ == '__main__':
    main()
