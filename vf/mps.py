"""Dense references and generators for MPS / MPO level checks (C07-C14).

Conventions: the dense state of a chain is an ndarray with one axis per site (axis k = site k, index = index of the
site's local basis *as the site orders it*), operators are built with numpy.kron with site 0 as the left-most factor."""
import itertools

import numpy as np
from hypothesis import strategies as st

SITE_CFGS = [
    ['SpinHalfSite', {'conserve': 'Sz'}],
    ['SpinHalfSite', {'conserve': 'parity'}],
    ['SpinHalfSite', {'conserve': None}],
    ['SpinHalfSite', {'conserve': 'Sz', 'sort_charge': False}],
    ['SpinSite', {'S': 1.0, 'conserve': 'Sz'}],
    ['SpinSite', {'S': 1.0, 'conserve': 'parity'}],
    ['SpinSite', {'S': 1.5, 'conserve': 'Sz'}],
    ['FermionSite', {'conserve': 'N'}],
    ['FermionSite', {'conserve': 'parity'}],
    ['FermionSite', {'conserve': None}],
    ['BosonSite', {'Nmax': 2, 'conserve': 'N'}],
    ['BosonSite', {'Nmax': 2, 'conserve': 'parity'}],
    ['SpinHalfFermionSite', {'cons_N': 'N', 'cons_Sz': 'Sz'}],
    ['SpinHalfFermionSite', {'cons_N': 'N', 'cons_Sz': None}],
    ['SpinHalfFermionSite', {'cons_N': 'parity', 'cons_Sz': 'parity'}],
    ['SpinHalfHoleSite', {'cons_N': 'N', 'cons_Sz': 'Sz'}],
    ['ClockSite', {'q': 3, 'conserve': 'Z'}],
]
FERMIONIC = {'FermionSite', 'SpinHalfFermionSite', 'SpinHalfHoleSite'}


def make_site(cfg):
    from tenpy.networks import site as S
    return getattr(S, cfg[0])(**cfg[1])


@st.composite
def chain_specs(draw, Lmin=2, Lmax=6, max_dim=2 ** 11, hetero=True, cfgs=None, fermionic_only=False):
    """{'sites': [cfg indices per unit], 'L': ..} -> a chain of sites with a common ChargeInfo."""
    cfgs = cfgs if cfgs is not None else list(range(len(SITE_CFGS)))
    if fermionic_only:
        cfgs = [i for i in cfgs if SITE_CFGS[i][0] in FERMIONIC]
    L = draw(st.integers(Lmin, Lmax))
    mode = draw(st.sampled_from(['homo', 'homo', 'hetero'] if hetero else ['homo']))
    if mode == 'homo':
        idx = [draw(st.sampled_from(cfgs))] * L
    else:
        a, b = draw(st.sampled_from(cfgs)), draw(st.sampled_from(cfgs))
        pat = draw(st.sampled_from([[0, 1], [0, 0, 1], [1, 0]]))
        idx = [[a, b][pat[k % len(pat)]] for k in range(L)]
    # respect the dimension bound by shortening the chain
    dims = [dim_of(SITE_CFGS[i]) for i in idx]
    while len(idx) > Lmin and int(np.prod(dims)) > max_dim:
        idx.pop()
        dims.pop()
    return {'cfg': idx}


def dim_of(cfg):
    c, kw = cfg
    if c == 'SpinHalfSite' or c == 'FermionSite':
        return 2
    if c == 'SpinSite':
        return int(2 * kw['S'] + 1)
    if c == 'BosonSite':
        return kw['Nmax'] + 1
    if c == 'SpinHalfFermionSite':
        return 4
    if c == 'SpinHalfHoleSite':
        return 3
    if c == 'ClockSite':
        return kw['q']
    raise ValueError(c)


def build_sites(chain):
    """Sites of the chain (one Site object per distinct cfg, shared between positions, with a common ChargeInfo)."""
    from tenpy.networks import site as S
    distinct = []
    for i in chain['cfg']:
        if i not in distinct:
            distinct.append(i)
    objs = [make_site(SITE_CFGS[i]) for i in distinct]
    if len(objs) > 1:
        same = all(o.leg.chinfo == objs[0].leg.chinfo for o in objs)
        if not same:
            S.set_common_charges(objs, 'independent')
    m = dict(zip(distinct, objs))
    return [m[i] for i in chain['cfg']]


def site_charges(site):
    """signed charge (charge*qconj) of every local basis state."""
    return np.asarray(site.leg.to_qflat()) * site.leg.qconj


def random_state(sites, seed, sector='random', cplx=True):
    """Random normalised dense state supported in one charge sector; returns (psi ndarray of shape dims, sector charge)."""
    rng = np.random.default_rng(seed)
    dims = [s.dim for s in sites]
    mod = [int(m) for m in sites[0].leg.chinfo.mod]
    qn = len(mod)
    tot = np.zeros(dims + [qn], dtype=np.int64)
    for k, s in enumerate(sites):
        q = site_charges(s)
        shape = [1] * len(dims) + [qn]
        shape[k] = dims[k]
        tot = tot + q.reshape(shape)
    for c, m in enumerate(mod):
        if m != 1:
            tot[..., c] %= m
    if qn:
        flat = tot.reshape(-1, qn)
        pick = flat[int(rng.integers(0, len(flat)))]
        mask = np.all(flat == pick[None, :], axis=1).reshape(dims)
    else:
        rng.integers(0, 2)
        pick = np.zeros(0, dtype=np.int64)
        mask = np.ones(dims, dtype=bool)
    psi = rng.normal(size=dims) + (1j * rng.normal(size=dims) if cplx else 0)
    psi = np.where(mask, psi, 0)
    psi = psi / np.linalg.norm(psi)
    return psi, pick


def to_npc_state(sites, psi, qtotal):
    from tenpy.linalg import np_conserved as npc
    legs = [s.leg for s in sites]
    labels = ['p%d' % k for k in range(len(sites))]
    return npc.Array.from_ndarray(psi, legs, qtotal=list(qtotal), labels=labels)


def mps_to_dense(psi, include_norm=True):
    """State vector from the *raw* stored tensors using the documented convention B_i = s_i^nuL Gamma_i s_{i+1}^nuR.
    Finite: ndarray with one axis per site.  Segment: axes (vL, p0, ..., vR)."""
    L = psi.L
    out = None
    if any(f is None for f in psi.form):
        # documented: without canonical form the singular values carry no meaning, the state is the product of the tensors
        for i in range(L):
            B = psi._B[i]
            T = np.transpose(B.to_ndarray(), [B.get_leg_index('vL'), B.get_leg_index('p'), B.get_leg_index('vR')])
            out = T if out is None else np.tensordot(out, T, axes=(out.ndim - 1, 0))
        if psi.bc == 'finite':
            out = out.reshape(out.shape[1:-1])
        return out * psi.norm if include_norm else out
    # state = s_0 G_0 s_1 G_1 ... s_L with B_i = s_i^nuL G_i s_{i+1}^nuR: bond b (left of site b) carries s_b^(1 - nuR_{b-1} - nuL_b);
    # combining the exponents per bond avoids dividing by (possibly exactly vanishing) singular values for the usual forms
    def spow(sv, e):
        sv = np.asarray(sv, dtype=float)
        if e == 0:
            return np.ones_like(sv)
        if e > 0:
            return sv ** e
        res = np.zeros_like(sv)
        nz = sv > 0
        res[nz] = sv[nz] ** e  # directions with vanishing weight do not contribute
        return res
    for i in range(L):
        B = psi._B[i]
        T = B.to_ndarray()
        T = np.transpose(T, [B.get_leg_index('vL'), B.get_leg_index('p'), B.get_leg_index('vR')])
        nuL, nuR = psi.form[i]
        if i == 0:
            eL = 1.0 - nuL
        else:
            eL = 1.0 - psi.form[i - 1][1] - nuL
        sL = np.asarray(psi._S[i])
        M = T * spow(sL, eL)[:, None, None]
        out = M if out is None else np.tensordot(out, M, axes=(out.ndim - 1, 0))
    sLast = np.asarray(psi._S[L]) if L < len(psi._S) else np.asarray(psi._S[0])
    out = out * spow(sLast, 1.0 - psi.form[L - 1][1])
    if psi.bc == 'finite':
        out = out.reshape(out.shape[1:-1])
    if include_norm:
        out = out * psi.norm
    return out


def kron_all(mats):
    out = np.array([[1.0]])
    for m in mats:
        out = np.kron(out, m)
    return out


def op_matrix(site, name):
    return site.get_op(name).to_ndarray()


def dense_op(sites, ops):
    """ops: {site index: matrix}; identity elsewhere."""
    return kron_all([ops.get(k, np.eye(s.dim)) for k, s in enumerate(sites)])


def jw_term(sites, term):
    """Dense operator of a term [(opname, i), ...] = product (left to right) of Jordan-Wigner reference operators
    c_i = (prod_{k<i} JW_k) op_i, independent of tenpy's term machinery."""
    return kron_all(jw_term_local(sites, term))


def jw_term_local(sites, term):
    """The single-site factors of :func:`jw_term`: kron(A, B) @ kron(C, D) = kron(A @ C, B @ D), so the ordered product of
    the reference operators is accumulated site by site."""
    local = [np.eye(s.dim, dtype=complex) for s in sites]
    for name, i in term:
        s = sites[i]
        if s.op_needs_JW(name):
            for k in range(i):
                local[k] = local[k] @ op_matrix(sites[k], 'JW')
        local[i] = local[i] @ op_matrix(s, name)
    return local


def schmidt_values(vec, dims, cut):
    """Schmidt coefficients of a dense state across the bond left of site `cut`."""
    m = np.asarray(vec).reshape(int(np.prod(dims[:cut])), int(np.prod(dims[cut:])))
    return np.linalg.svd(m, compute_uv=False)


def entropy(s, n=1):
    p = np.asarray(s) ** 2
    p = p[p > 1e-30]
    if n == 1:
        return float(-np.sum(p * np.log(p)))
    if n == np.inf:
        return float(-np.log(np.max(p)))
    return float(np.log(np.sum(p ** n)) / (1 - n))


def fermionic_opnames(site):
    return [n for n in sorted(site.opnames) if site.op_needs_JW(n) and not n.startswith('JW')]


def mpo_to_dense(mpo, hc=None):
    """Dense matrix of a finite MPO by contracting the raw W tensors between IdL[0] and IdR[-1];
    adds the hermitian conjugate if the MPO is flagged explicit_plus_hc."""
    L = mpo.L
    vec = None
    for i in range(L):
        W = mpo._W[i]
        T = np.transpose(W.to_ndarray(), [W.get_leg_index('wL'), W.get_leg_index('wR'), W.get_leg_index('p'), W.get_leg_index('p*')])
        if vec is None:
            idl = mpo.IdL[0]
            cur = T[idl]  # (wR, p, p*)
            vec = np.transpose(cur, [1, 2, 0])  # (P, P*, wR)
        else:
            # vec: (P, P*, w) ; T: (w, wR, p, p*)
            vec = np.einsum('abw,wrpq->apbqr', vec, T)
            s = vec.shape
            vec = vec.reshape(s[0] * s[1], s[2] * s[3], s[4])
    idr = mpo.IdR[-1]
    H = vec[:, :, idr]
    flag = mpo.explicit_plus_hc if hc is None else hc
    if flag:
        H = H + H.conj().T
    return H


def coupling_terms_dense(sites, ct):
    """Dense sum of a CouplingTerms instance from its documented nested dict
    {i: {(op_i, op_str): {j: {op_j: strength}}}} with op_str on the sites between i and j."""
    D = int(np.prod([s.dim for s in sites]))
    H = np.zeros((D, D), dtype=complex)
    L = len(sites)
    for i, d1 in ct.coupling_terms.items():
        for (op_i, op_str), d2 in d1.items():
            for j, d3 in d2.items():
                for op_j, strength in d3.items():
                    if not (0 <= i < j < L):
                        raise ValueError('coupling term outside of a finite chain: %r %r' % (i, j))
                    ops = {i: op_matrix(sites[i], op_i), j: op_matrix(sites[j], op_j)}
                    for k in range(i + 1, j):
                        ops[k] = op_matrix(sites[k], op_str)
                    H += strength * dense_op(sites, ops)
    return H


def onsite_terms_dense(sites, ot):
    D = int(np.prod([s.dim for s in sites]))
    H = np.zeros((D, D), dtype=complex)
    for i, terms in enumerate(ot.onsite_terms):
        for name, strength in terms.items():
            H += strength * dense_op(sites, {i: op_matrix(sites[i], name)})
    return H


def coupling_terms_dense_multi(sites, ct):
    """Dense sum of CouplingTerms or MultiCouplingTerms from the documented container structure
    (`coupling_terms` resp. `terms_left` / `terms_right` / `connections`), finite chains only."""
    if not hasattr(ct, 'connections'):
        return coupling_terms_dense(sites, ct)
    D = int(np.prod([s.dim for s in sites]))
    H = np.zeros((D, D), dtype=complex)
    ncon = len(ct.connections)
    left = [None] * ncon
    right = [None] * ncon

    def walk(d0, connect, out, part=()):
        for i, d1 in d0.items():
            if i == connect:
                for c in d1:
                    out[c] = part
            else:
                for (op_i, op_str), d2 in d1.items():
                    walk(d2, connect, out, part + ((i, op_i, op_str),))
    walk(ct.terms_left, -1, left)
    walk(ct.terms_right, ct.L + 1, right)
    for c in range(1, ncon):
        switchLR, op_switch, shift, strength = ct.connections[c]
        ops = {}
        tl, tr = left[c], right[c]
        if tl is None or tr is None:
            raise ValueError('connection %d not reachable in terms_left/terms_right' % c)
        for n, (i, op, s) in enumerate(tl):
            nxt = tl[n + 1][0] if n + 1 < len(tl) else switchLR
            ops[i] = op_matrix(sites[i], op)
            for k in range(i + 1, nxt):
                ops[k] = op_matrix(sites[k], s)
        ops[switchLR] = op_matrix(sites[switchLR], op_switch)
        for n, (i, op, s) in enumerate(tr):
            i = i + shift
            nxt = tr[n + 1][0] + shift if n + 1 < len(tr) else switchLR
            ops[i] = op_matrix(sites[i], op)
            for k in range(nxt + 1, i):
                ops[k] = op_matrix(sites[k], s)
        H += strength * dense_op(sites, ops)
    return H


def exp_terms_dense(sites, et):
    """Dense sum of ExponentiallyDecayingTerms on a finite chain from the documented tuples
    (strength, lambda, op_i, op_j, subsites, subsites_start, op_string):
    strength * lambda_i * prod_{n in S, i < n < j} lambda_n  A_i (op_string ...) B_j."""
    D = int(np.prod([s.dim for s in sites]))
    H = np.zeros((D, D), dtype=complex)
    L = len(sites)
    if len(et.centered_terms):
        raise ValueError('centered terms not generated')
    for strength, lam, op_i, op_j, subsites, subsites_start, op_string in et.exp_decaying_terms:
        lam = np.full(L, lam) if np.ndim(lam) == 0 else np.asarray(lam)
        for i in subsites_start:
            for j in subsites:
                if j <= i:
                    continue
                fac = lam[i] * np.prod([lam[n] for n in subsites if i < n < j])
                ops = {int(i): op_matrix(sites[i], op_i), int(j): op_matrix(sites[j], op_j)}
                for k in range(i + 1, j):
                    ops[k] = op_matrix(sites[k], op_string)
                H += strength * fac * dense_op(sites, ops)
    return H
