"""Core types shared by all checks: Violation, Sub (sub-check), known-findings matching,
the shard driver around Hypothesis (collect-then-shrink with signature bucketing)."""
import hashlib
import json
import os
import sys
import traceback

VERIF = os.path.dirname(os.path.dirname(os.path.abspath(__file__)))


class Violation(Exception):
    """The oracle of a sub-check rejected a case.

    ``clause`` names the oracle clause; ``tags`` are the (few) names that select the faulty code
    (operation, engine, option ...).  Together with the sub-check name they form the signature."""

    def __init__(self, clause, msg='', **tags):
        super().__init__('%s: %s %s' % (clause, msg, tags if tags else ''))
        self.clause = clause
        self.msg = str(msg)[:2000]
        self.tags = {k: (v if isinstance(v, (int, bool, type(None))) else str(v)) for k, v in tags.items()}


class Skip(Exception):
    """Case is outside the sound domain (discovered only at run time); counted as discarded."""


def require(cond, clause, msg='', **tags):
    if not cond:
        raise Violation(clause, msg, **tags)


class Sub:
    """One sub-check = one oracle family over one generator."""

    def __init__(self, name, strategy, run, quick=200, thorough=5000, configs=('cy',), shards=None,
                 shrink_quick=True, max_shards=16, enumerate_fn=None, weight=1.0):
        self.name = name
        self.strategy = strategy  # callable(tier) -> hypothesis strategy producing JSON-able specs
        self.run = run  # callable(spec) -> info dict {'nontrivial': bool, 'classes': [...]} ; raises Violation
        self.quick = quick
        self.thorough = thorough
        self.configs = configs
        self.shrink_quick = shrink_quick
        self.max_shards = max_shards
        # enumerate_fn(tier, shard, nshards, seed) -> iterable of specs (exhaustive / stratified enumeration
        # instead of Hypothesis)
        self.enumerate_fn = enumerate_fn


def canon(spec):
    return json.dumps(spec, sort_keys=True, separators=(',', ':'), default=_default)


def _default(o):
    import numpy as np
    if isinstance(o, np.integer):
        return int(o)
    if isinstance(o, np.floating):
        return float(o)
    if isinstance(o, np.ndarray):
        return o.tolist()
    if isinstance(o, complex):
        return [o.real, o.imag]
    if isinstance(o, (set, frozenset)):
        return sorted(o)
    return repr(o)


def spec_hash(spec):
    return hashlib.blake2b(canon(spec).encode(), digest_size=8).hexdigest()


# ----------------------------------------------------------------------------------------------
# known findings


def load_known():
    p = os.path.join(VERIF, 'known_findings.json')
    if not os.path.exists(p):
        return []
    with open(p) as f:
        return json.load(f).get('findings', [])


def match_known(known, prop, sig):
    """Return the known entry (status 'known') whose ``match`` is a subset of the signature."""
    for k in known:
        if k.get('status') != 'known' or k.get('property') != prop:
            continue
        ok = True
        for key, val in k.get('match', {}).items():
            have = sig.get(key)
            if isinstance(val, list):
                if have not in val:
                    ok = False
                    break
            elif have != val:
                ok = False
                break
        if ok:
            return k
    return None


def signature(subname, v):
    sig = {'subcheck': subname, 'clause': v.clause}
    sig.update(v.tags)
    return sig


def sig_key(sig):
    return canon(sig)


# ----------------------------------------------------------------------------------------------
# classification of unexpected exceptions


def innermost_pkg_frame(exc):
    """(where, in_tenpy): innermost frame that lies in the tenpy package (else the innermost frame)."""
    tb = traceback.extract_tb(exc.__traceback__)
    last_tenpy = None
    for fr in tb:
        fn = fr.filename.replace('\\', '/')
        if '/tenpy/' in fn and '/verif/' not in fn:
            last_tenpy = '%s:%s' % (fn.split('/tenpy/', 1)[1], fr.name)
    if last_tenpy is not None:
        return last_tenpy, True
    if tb:
        fr = tb[-1]
        return '%s:%s' % (os.path.basename(fr.filename), fr.name), False
    return '?', False


def as_violation(exc, context=''):
    """Turn an unexpected exception raised *inside tenpy* on a sound input into a Violation; exceptions that
    never entered tenpy are harness bugs and are re-raised."""
    where, in_tenpy = innermost_pkg_frame(exc)
    if not in_tenpy:
        raise exc
    return Violation('unexpected-exception', '%s %s: %s' % (context, type(exc).__name__, str(exc)[:300]),
                     exc=type(exc).__name__, where=where)


# ----------------------------------------------------------------------------------------------
# shard driver


class ShardResult:
    def __init__(self):
        self.evals = 0
        self.discarded = 0
        self.nontrivial = {}  # hash -> None
        self.classes = {}
        self.samples = []
        self.known_hits = {}  # finding id -> {'count', 'spec', 'msg'}
        self.violations = []  # {'sig', 'spec', 'msg'}
        self.harness_errors = []
        self.budget_exhausted = False

    def to_json(self):
        return {'evals': self.evals, 'discarded': self.discarded, 'nontrivial': list(self.nontrivial),
                'classes': self.classes, 'samples': self.samples, 'known_hits': self.known_hits,
                'violations': self.violations, 'harness_errors': self.harness_errors,
                'budget_exhausted': self.budget_exhausted}


def run_case(sub, prop, spec, known, ignore, res, collect=True):
    """Run one case. Returns None, or raises Violation for an unlisted, un-ignored violation."""
    res.evals += 1
    try:
        info = sub.run(spec)
    except Skip:
        res.discarded += 1
        return
    except Violation as v:
        _handle(sub, prop, spec, v, known, ignore, res)
        return
    except (AssertionError, ArithmeticError, LookupError, TypeError, ValueError, AttributeError, RuntimeError, NameError,
            NotImplementedError, OSError, RecursionError) as e:
        if type(e).__module__.startswith('hypothesis'):
            raise
        v = as_violation(e)  # re-raises e if it is a harness bug
        _handle(sub, prop, spec, v, known, ignore, res)
        return
    if info is None:
        info = {}
    if collect:
        for c in info.get('classes', ()):
            res.classes[c] = res.classes.get(c, 0) + 1
        if info.get('nontrivial', True):
            h = spec_hash(spec)
            if h not in res.nontrivial:
                res.nontrivial[h] = None
                if len(res.samples) < 3:
                    res.samples.append(spec)


def _handle(sub, prop, spec, v, known, ignore, res):
    sig = signature(sub.name, v)
    k = match_known(known, prop, sig)
    if k is not None:
        d = res.known_hits.setdefault(k['id'], {'count': 0, 'spec': spec, 'msg': v.msg, 'size': 1 << 60})
        d['count'] += 1
        size = len(canon(spec))
        if size < d['size']:
            d.update(spec=spec, msg=v.msg, size=size)
        return
    if sig_key(sig) in ignore:
        return
    v.sig = sig
    raise v


def run_shard_hypothesis(sub, prop, tier, seed, n, known, shrink=True, rounds=4):
    import hypothesis
    from hypothesis import given, settings, HealthCheck, Phase
    res = ShardResult()
    ignore = set()
    strategy = sub.strategy(tier)
    phases = [Phase.generate, Phase.target]
    if shrink:
        phases.append(Phase.shrink)
    budget = n
    for rnd in range(rounds):
        if budget <= 0:
            break
        last = {}
        before = res.evals

        @hypothesis.seed(seed + 7919 * rnd)
        @settings(max_examples=budget, database=None, deadline=None, derandomize=False,
                  report_multiple_bugs=False, phases=phases, suppress_health_check=list(HealthCheck),
                  print_blob=False, verbosity=hypothesis.Verbosity.quiet)
        @given(strategy)
        def prop_test(spec):
            try:
                run_case(sub, prop, spec, known, ignore, res)
            except Violation as v:
                last['v'] = v
                last['spec'] = spec
                raise

        try:
            prop_test()
            break
        except Violation as v:
            v = last.get('v', v)
            spec = last.get('spec')
            sig = getattr(v, 'sig', signature(sub.name, v))
            res.violations.append({'sig': sig, 'spec': spec, 'msg': v.msg})
            ignore.add(sig_key(sig))
            budget -= (res.evals - before)
        except hypothesis.errors.Unsatisfiable as e:
            res.harness_errors.append('generator unsatisfiable: %s' % e)
            break
        except hypothesis.errors.Flaky as e:
            # non-deterministic outcome for the same spec: report as inconclusive harness error
            res.harness_errors.append('flaky: %s' % str(e)[:500])
            break
    return res


def run_shard_enumerated(sub, prop, tier, seed, shard, nshards, known):
    res = ShardResult()
    ignore = set()
    for spec in sub.enumerate_fn(tier, shard, nshards, seed):
        try:
            run_case(sub, prop, spec, known, ignore, res)
        except Violation as v:
            sig = getattr(v, 'sig', signature(sub.name, v))
            res.violations.append({'sig': sig, 'spec': spec, 'msg': v.msg})
            ignore.add(sig_key(sig))
    return res
