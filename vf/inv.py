"""Independent storage-invariant checker for npc.Array / LegCharge (C02 oracle (b)) plus the library's own
test_sanity evaluated at optimisation level 0 (oracle (a))."""
import numpy as np

from .core import Violation, require
from . import dense as D


def set_level0():
    from tenpy.tools import optimization
    optimization.set_level(0)


def check_leg(leg, op, where='leg'):
    tags = dict(op=op)
    sl, ch = leg.slices, leg.charges
    require(sl.ndim == 1 and sl.shape[0] == leg.block_number + 1, 'leg-slices-shape', where, **tags)
    require(sl[0] == 0 and np.all(np.diff(sl) >= 0), 'leg-slices-monotone', '%s %s' % (where, sl), **tags)
    require(int(sl[-1]) == leg.ind_len, 'leg-ind_len', where, **tags)
    require(ch.ndim == 2 and ch.shape == (leg.block_number, leg.chinfo.qnumber), 'leg-charges-shape', where, **tags)
    mod = [int(m) for m in leg.chinfo.mod]
    require(np.array_equal(D.make_valid(mod, ch), ch), 'leg-charges-not-reduced', '%s %s mod %s' % (where, ch.tolist(), mod), **tags)
    require(leg.qconj in (1, -1), 'leg-qconj', where, **tags)
    rows = [tuple(int(x) for x in r) for r in ch]
    is_sorted = D.lexsort_rows_stable(rows) == list(range(len(rows))) if len(mod) else True
    is_bunched = all(rows[i] != rows[i + 1] for i in range(len(rows) - 1))
    if leg.sorted:
        require(is_sorted, 'flag-sorted-false', '%s claims sorted, charges %s' % (where, rows), **tags)
    if leg.bunched:
        require(is_bunched, 'flag-bunched-false', '%s claims bunched, charges %s' % (where, rows), **tags)
    if leg.sorted and leg.bunched:
        require(len(set(rows)) == len(rows), 'flag-blocked-false', where, **tags)
    require(bool(leg.is_blocked()) == (len(set(rows)) == len(rows)), 'is_blocked-wrong', '%s: is_blocked()=%r charges %s' % (where, leg.is_blocked(), rows), **tags)
    if hasattr(leg, 'legs'):
        # pipe consistency
        require(leg.nlegs == len(leg.legs), 'pipe-nlegs', where, **tags)
        require(tuple(leg.subshape) == tuple(l.ind_len for l in leg.legs), 'pipe-subshape', where, **tags)
        require(tuple(leg.subqshape) == tuple(l.block_number for l in leg.legs), 'pipe-subqshape', where, **tags)
        require(leg.ind_len == int(np.prod(leg.subshape)), 'pipe-ind_len', where, **tags)
        qm = leg.q_map
        require(qm.shape == (int(np.prod(leg.subqshape)), 3 + leg.nlegs), 'pipe-q_map-shape', where, **tags)
        # every incoming block tuple exactly once
        tuples = sorted(tuple(int(x) for x in r[3:]) for r in qm)
        import itertools
        require(tuples == sorted(itertools.product(*[range(n) for n in leg.subqshape])), 'pipe-q_map-tuples', where, **tags)
        for r in qm:
            b0, b1, Is = int(r[0]), int(r[1]), int(r[2])
            size = int(np.prod([leg.legs[k].slices[r[3 + k] + 1] - leg.legs[k].slices[r[3 + k]] for k in range(leg.nlegs)]))
            require(b1 - b0 == size, 'pipe-q_map-size', where, **tags)
            require(0 <= Is < leg.block_number and b1 <= sl[Is + 1] - sl[Is], 'pipe-q_map-range', where, **tags)
            q = np.zeros(len(mod), dtype=np.int64)
            for k in range(leg.nlegs):
                q = q + leg.legs[k].charges[r[3 + k]] * leg.legs[k].qconj
            require(np.array_equal(D.make_valid(mod, q), D.make_valid(mod, ch[Is] * leg.qconj)), 'pipe-fusion-rule', where, **tags)
        for k, s in enumerate(leg.legs):
            check_leg(s, op, where + '.sub%d' % k)


def check_array(a, op):
    tags = dict(op=op)
    rank = len(a.legs)
    require(rank >= 1 and a.rank == rank, 'rank', '', **tags)
    require(tuple(a.shape) == tuple(l.ind_len for l in a.legs), 'shape-vs-legs', '%s' % (a.shape,), **tags)
    q = a._qdata
    require(isinstance(q, np.ndarray) and q.dtype == np.intp, 'qdata-dtype', str(getattr(q, 'dtype', None)), **tags)
    require(q.ndim == 2 and q.shape == (len(a._data), rank), 'qdata-shape', '%s vs (%d,%d)' % (q.shape, len(a._data), rank), **tags)
    require(q.flags['C_CONTIGUOUS'], 'qdata-not-C-contiguous', '', **tags)
    for k, l in enumerate(a.legs):
        require(l.chinfo == a.chinfo, 'leg-chinfo', '', **tags)
        check_leg(l, op, 'leg%d' % k)
        if len(q):
            require(q[:, k].min() >= 0 and q[:, k].max() < l.block_number, 'qdata-range', 'leg %d' % k, **tags)
    rows = [tuple(int(x) for x in r) for r in q]
    require(len(set(rows)) == len(rows), 'duplicate-block', str(rows), **tags)
    mod = [int(m) for m in a.chinfo.mod]
    require(np.array_equal(D.make_valid(mod, a.qtotal), a.qtotal) and a.qtotal.shape == (len(mod),), 'qtotal-not-reduced', str(a.qtotal), **tags)
    for r, block in zip(rows, a._data):
        ch = np.zeros(len(mod), dtype=np.int64)
        shape = []
        for k, qi in enumerate(r):
            ch = ch + a.legs[k].charges[qi] * a.legs[k].qconj
            shape.append(int(a.legs[k].slices[qi + 1] - a.legs[k].slices[qi]))
        require(np.array_equal(D.make_valid(mod, ch), a.qtotal), 'block-violates-charge-rule', 'block %s' % (r,), **tags)
        require(tuple(block.shape) == tuple(shape), 'block-shape', 'block %s: %s vs %s' % (r, block.shape, shape), **tags)
        require(block.dtype == a.dtype, 'block-dtype', 'block %s: %s vs %s' % (r, block.dtype, a.dtype), **tags)
    if a._qdata_sorted and len(rows) > 1:
        require(D.lexsort_rows_stable(rows) == list(range(len(rows))), 'flag-qdata_sorted-false', str(rows), **tags)
    require(len(a._labels) == rank, 'labels-len', '', **tags)
    labs = [l for l in a._labels if l is not None]
    require(all(isinstance(l, str) for l in labs), 'labels-type', str(a._labels), **tags)
    require(len(set(labs)) == len(labs), 'labels-duplicate', str(a._labels), **tags)
    # (a) the library's own sanity check (level 0 must have been selected by the caller)
    try:
        a.test_sanity()
    except (ValueError, AssertionError) as e:
        raise Violation('test_sanity', '%s: %s' % (type(e).__name__, str(e)[:200]), **tags)
