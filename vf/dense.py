"""Independent dense (numpy) reference implementations used as oracles.  Nothing here calls the routine
under test; leg objects are only read through their public data (``slices``, ``charges``, ``qconj``)."""
import itertools

import numpy as np


def make_valid(mod, q):
    q = np.array(q, dtype=np.int64)
    mod = np.asarray(mod, dtype=np.int64)
    if q.ndim == 1:
        out = q.copy()
        for i, m in enumerate(mod):
            if m != 1:
                out[i] = out[i] % m
        return out
    out = q.copy()
    for i, m in enumerate(mod):
        if m != 1:
            out[:, i] = out[:, i] % m
    return out


def leg_blocks(leg):
    """[(start, stop, charge tuple)] of a leg (raw charges, not multiplied by qconj)."""
    return [(int(leg.slices[i]), int(leg.slices[i + 1]), tuple(int(x) for x in leg.charges[i]))
            for i in range(leg.block_number)]


def signed_qflat(leg, mod=None):
    """per-index charge * qconj (made valid)."""
    qn = leg.charges.shape[1]
    out = np.zeros((int(leg.slices[-1]), qn), dtype=np.int64)
    for i in range(leg.block_number):
        out[int(leg.slices[i]):int(leg.slices[i + 1]), :] = leg.charges[i] * leg.qconj
    if mod is not None:
        out = make_valid(mod, out)
    return out


def lexsort_rows_stable(rows):
    """Stable argsort of rows where the LAST column is the primary key (numpy.lexsort convention,
    re-implemented through python's stable sort)."""
    keys = [tuple(reversed([int(x) for x in r])) for r in rows]
    return sorted(range(len(keys)), key=lambda i: keys[i])


def ref_pipe(legs, qconj, mod, sort=True, bunch=True):
    """Reference for a LegPipe of `legs` (objects with slices/charges/qconj).

    Returns dict with
      perm    : 1D array, ``out_index -> flat C-order index of the incoming index tuple``
      charges : (ind_len, qnumber) raw charge (not times qconj) of every outgoing index
      slices, block_charges : block structure of the outgoing leg
    Derived from the documentation of LegPipe: blocks are the C-ordered tuples of incoming qindices, stably
    sorted by the fused charge (if sort and qnumber>0), contiguous blocks of equal charge are merged (if bunch),
    C-order inside every incoming block tuple."""
    mod = list(mod)
    qn = len(mod)
    subshape = [int(l.slices[-1]) for l in legs]
    nblocks = [l.block_number for l in legs]
    tuples = list(itertools.product(*[range(n) for n in nblocks]))
    fused = []
    for t in tuples:
        q = np.zeros(qn, dtype=np.int64)
        for l, qi in zip(legs, t):
            q = q + np.asarray(l.charges[qi], dtype=np.int64) * l.qconj
        fused.append(make_valid(mod, qconj * q))
    order = list(range(len(tuples)))
    if sort and qn > 0 and not all(n == 1 for n in nblocks):
        order = lexsort_rows_stable([fused[i] for i in order])
    perm = []
    idx_charges = []
    blocks = []  # (size, charge) before bunching
    strides = [int(np.prod(subshape[i + 1:])) for i in range(len(subshape))]
    for bi in order:
        t = tuples[bi]
        ranges = [range(int(l.slices[qi]), int(l.slices[qi + 1])) for l, qi in zip(legs, t)]
        cnt = 0
        for idx in itertools.product(*ranges):
            perm.append(sum(i * s for i, s in zip(idx, strides)))
            idx_charges.append(fused[bi])
            cnt += 1
        blocks.append((cnt, tuple(int(x) for x in fused[bi])))
    if bunch or all(n == 1 for n in nblocks):
        merged = []
        for size, ch in blocks:
            if merged and merged[-1][1] == ch:
                merged[-1] = (merged[-1][0] + size, ch)
            else:
                merged.append((size, ch))
        blocks = merged
    slices = np.concatenate([[0], np.cumsum([b[0] for b in blocks])]).astype(np.int64)
    return {'perm': np.array(perm, dtype=np.int64),
            'charges': np.array(idx_charges, dtype=np.int64).reshape(len(perm), qn),
            'slices': slices, 'block_charges': [b[1] for b in blocks]}


def combine_dense(dense, axes_groups, new_axes, perms):
    """Dense version of combine_legs: groups of axes -> one axis each (index order given by `perms`)."""
    rank = dense.ndim
    all_comb = [a for g in axes_groups for a in g]
    rest = [a for a in range(rank) if a not in all_comb]
    # final axis order: insert groups at new_axes (ascending)
    order = sorted(range(len(axes_groups)), key=lambda i: new_axes[i])
    final = [[a] for a in rest]
    for i in order:
        final.insert(new_axes[i], list(axes_groups[i]))
    transp = [a for g in final for a in g]
    d = np.transpose(dense, transp)
    shape = []
    for g in final:
        shape.append(int(np.prod([dense.shape[a] for a in g])) if len(g) else 1)
    d = d.reshape(shape)
    for i in order:
        d = np.take(d, perms[i], axis=new_axes[i])
    return d, final


def default_new_axes(rank, axes_groups):
    """Documented default: for each pipe the position of its first leg, accounting for removed axes."""
    res = []
    first = [min(g) if False else g[0] for g in axes_groups]
    all_comb = [a for g in axes_groups for a in g]
    for g in axes_groups:
        # number of non-removed positions before g[0]: axes before g[0] that are not combined,
        # plus pipes whose first leg is before g[0]
        na = 0
        for a in range(g[0]):
            if a not in all_comb:
                na += 1
        for g2 in axes_groups:
            if g2 is not g and g2[0] < g[0]:
                na += 1
        res.append(na)
    return res
