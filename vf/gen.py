"""Generators (Hypothesis strategies producing JSON-able *specs*) and pure builders spec -> tenpy object.

Charge structure
    chinfo spec : {"mod": [m, ...]}           (m == 1 means U(1))
    leg spec    : {"q": [[c, ...], ...], "s": [size, ...], "c": +1|-1, "ctor": 0..3}
                  blocks in the given order: unsorted, duplicate charges and size-0 legs are allowed
    tensor spec : {"legs": [[pool_index, sign], ...], "qt": int|list, "fill": {...}, "labels": [...], "dt": str}

A tensor is built from an explicit block dictionary through the storage schema documented in
doc/intro/npc.rst (``_data``/``_qdata``), which gives control over missing / stored-zero blocks and the
block order; the *expected dense array* is assembled independently by the builder.
"""
import itertools

import numpy as np
from hypothesis import strategies as st

DTYPES = ['float64', 'complex128', 'int64', 'float32', 'complex64']

# ------------------------------------------------------------------------------------------------
# strategies


def chinfo_specs(max_charges=2):
    return st.lists(st.sampled_from([1, 1, 2, 3, 4]), min_size=0, max_size=max_charges).map(lambda m: {'mod': m})


@st.composite
def leg_specs(draw, mod, max_blocks=4, max_size=3, allow_empty=False, min_blocks=1, qconj=None):
    nb = draw(st.integers(min_blocks, max_blocks))
    qs = []
    for _ in range(nb):
        q = []
        for m in mod:
            if m == 1:
                q.append(draw(st.integers(-2, 2)))
            else:
                q.append(draw(st.integers(0, m - 1)))
        qs.append(q)
    if not mod:
        # without charges several blocks are still legal (unbunched leg)
        pass
    sizes = [draw(st.integers(0 if allow_empty and nb > 0 and draw(st.integers(0, 9)) == 0 else 1, max_size))
             for _ in range(nb)]
    if sum(sizes) == 0 and not allow_empty:
        sizes[0] = 1
    c = qconj if qconj is not None else draw(st.sampled_from([1, -1]))
    return {'q': qs, 's': sizes, 'c': c, 'ctor': draw(st.integers(0, 3))}


@st.composite
def fill_specs(draw, dtypes=('float64', 'complex128')):
    return {
        'kind': draw(st.sampled_from(['int', 'int', 'int', 'gauss'])),
        'seed': draw(st.integers(0, 2**20)),
        'absent': draw(st.sampled_from([0, 0, 2, 5])),  # tenths
        'zero': draw(st.sampled_from([0, 0, 0, 2])),
        'order': draw(st.sampled_from(['sorted', 'shuffled'])),
        'dt': draw(st.sampled_from(list(dtypes))),
    }


LABELS = ['a', 'b', 'c', 'd', 'e', 'f', 'vL', 'vR', 'p', 'p*', 'wL', 'wR', 'a*', 'b*']


@st.composite
def label_lists(draw, rank, allow_none=True):
    pool = list(LABELS)
    out = []
    for _ in range(rank):
        if allow_none and draw(st.integers(0, 5)) == 0:
            out.append(None)
        else:
            i = draw(st.integers(0, len(pool) - 1))
            out.append(pool.pop(i))
    return out


@st.composite
def tensor_specs(draw, npool, rank=None, max_rank=4, dtypes=('float64', 'complex128'), labels=True):
    r = rank if rank is not None else draw(st.integers(1, max_rank))
    legs = [[draw(st.integers(0, npool - 1)), draw(st.sampled_from([1, -1]))] for _ in range(r)]
    qt = draw(st.one_of(*([st.integers(0, 50)] * 7 + [st.just('arb')])))
    t = {'legs': legs, 'qt': qt, 'fill': draw(fill_specs(dtypes))}
    if qt == 'arb':
        t['qarb'] = draw(st.lists(st.integers(-2, 3), min_size=4, max_size=4))
    if labels:
        t['labels'] = draw(label_lists(r))
    return t


@st.composite
def pool_specs(draw, max_charges=2, max_legs=4, max_blocks=4, max_size=3, allow_empty=False, min_legs=1):
    ch = draw(chinfo_specs(max_charges))
    n = draw(st.integers(min_legs, max_legs))
    legs = [draw(leg_specs(ch['mod'], max_blocks, max_size, allow_empty)) for _ in range(n)]
    return {'ch': ch, 'legs': legs}


# ------------------------------------------------------------------------------------------------
# builders


def build_chinfo(spec):
    from tenpy.linalg.charges import ChargeInfo
    mod = spec['mod']
    names = spec.get('names')
    return ChargeInfo(mod, names) if names else ChargeInfo(mod)


def valid_charge(mod, q):
    return [int(x) if m == 1 else int(x) % m for x, m in zip(q, mod)]


def build_leg(chinfo, spec, sign=1):
    """Build the LegCharge through one of the public constructors (``ctor``), conjugated if sign == -1."""
    from tenpy.linalg.charges import LegCharge
    mod = list(chinfo.mod)
    qs = [valid_charge(mod, q) for q in spec['q']]
    sizes = list(spec['s'])
    slices = np.concatenate([[0], np.cumsum(sizes)]).astype(int)
    qarr = np.array(qs, dtype=int).reshape(len(qs), len(mod))
    ctor = spec.get('ctor', 0)
    if ctor == 1 and all(s == 1 for s in sizes):
        leg = LegCharge.from_qflat(chinfo, qarr, spec['c'])
    elif ctor == 2 and len(sizes) == 1 and not np.any(qarr):
        leg = LegCharge.from_trivial(sizes[0], chinfo, spec['c'])
    elif ctor == 3 and qarr.shape[0] >= 2 and qarr.shape[1] >= 2:
        # a charge table in Fortran order (e.g. the transpose of an array of per-charge rows): a legal input of every constructor
        leg = LegCharge.from_qind(chinfo, slices, np.asfortranarray(qarr), spec['c'])
    else:
        leg = LegCharge.from_qind(chinfo, slices, qarr, spec['c'])
    if sign == -1:
        leg = leg.conj()
    return leg


def leg_qflat_signed(leg):
    """charge * qconj for every index: the per-index observable of a leg (independent of block structure)."""
    return np.asarray(leg.to_qflat()) * leg.qconj


def fill_values(rng, shape, kind, dt):
    cplx = np.dtype(dt).kind == 'c'
    if kind == 'int' or np.dtype(dt).kind == 'i':
        x = rng.integers(-3, 4, size=shape).astype(float)
        if cplx:
            x = x + 1j * rng.integers(-3, 4, size=shape)
    else:
        x = rng.normal(size=shape)
        if cplx:
            x = x + 1j * rng.normal(size=shape)
    return np.asarray(x).astype(dt)


def block_charge(chinfo, legs, qinds):
    q = np.zeros(chinfo.qnumber, dtype=int)
    for leg, qi in zip(legs, qinds):
        q = q + leg.charges[qi] * leg.qconj
    return chinfo.make_valid(q)


def build_array(legs, tspec, chinfo=None):
    """Return (Array, dense ndarray expected, info).  `legs` are tenpy LegCharges (already conjugated)."""
    from tenpy.linalg import np_conserved as npc
    chinfo = chinfo or legs[0].chinfo
    fill = tspec['fill']
    dt = np.dtype(fill.get('dt', 'float64'))
    rng = np.random.default_rng(fill['seed'])
    combos = list(itertools.product(*[range(l.block_number) for l in legs]))
    qt = tspec.get('qt', 0)
    if qt == 'arb' or not combos:
        qarb = tspec.get('qarb', [0, 0, 0, 0])
        qtotal = chinfo.make_valid(np.array([qarb[i % 4] for i in range(chinfo.qnumber)], dtype=int))
    else:
        qtotal = block_charge(chinfo, legs, combos[qt % len(combos)])
    shape = tuple(l.ind_len for l in legs)
    dense = np.zeros(shape, dtype=dt)
    blocks = []
    n_compat = 0
    for c in combos:
        if np.any(block_charge(chinfo, legs, c) != qtotal):
            continue
        bshape = tuple(int(l.slices[q + 1] - l.slices[q]) for l, q in zip(legs, c))
        n_compat += 1
        u = rng.integers(0, 10)
        vals = fill_values(rng, bshape, fill['kind'], dt)
        if u < fill.get('absent', 0):
            continue
        if rng.integers(0, 10) < fill.get('zero', 0):
            vals = np.zeros(bshape, dtype=dt)
        sl = tuple(slice(int(l.slices[q]), int(l.slices[q + 1])) for l, q in zip(legs, c))
        dense[sl] = vals
        blocks.append((c, vals))
    if fill.get('order') == 'shuffled' and len(blocks) > 1:
        perm = rng.permutation(len(blocks))
        blocks = [blocks[i] for i in perm]
        is_sorted = False
    else:
        # lexsort order of _qdata: last column is the primary key
        blocks.sort(key=lambda b: tuple(reversed(b[0])))
        is_sorted = True
    labels = tspec.get('labels')
    a = npc.Array(legs, dt, qtotal, labels)
    a._data = [np.array(v, dtype=dt, order='C') for _, v in blocks]
    a._qdata = np.array([c for c, _ in blocks], dtype=np.intp).reshape(len(blocks), len(legs))
    a._qdata = np.ascontiguousarray(a._qdata)
    a._qdata_sorted = is_sorted
    info = {'compatible_blocks': n_compat, 'stored_blocks': len(blocks),
            'multi_block_leg': any(l.block_number >= 2 for l in legs)}
    return a, dense, info


def build_pool(pspec):
    chinfo = build_chinfo(pspec['ch'])
    return chinfo, [build_leg(chinfo, l) for l in pspec['legs']]


def build_tensor(chinfo, pool_legs, tspec, pool_specs_list=None):
    legs = []
    for i, sgn in tspec['legs']:
        leg = pool_legs[i % len(pool_legs)]
        legs.append(leg if sgn == 1 else leg.conj())
    return build_array(legs, tspec, chinfo)


def leg_classes(leg):
    """Structural classes of a leg, for the class histogram."""
    out = []
    q = [tuple(c) for c in leg.charges]
    if leg.block_number >= 2:
        out.append('multiblock')
        if len(set(q)) < len(q):
            out.append('dupcharge')
        if not leg.is_sorted():
            out.append('unsorted')
    if leg.qconj == -1:
        out.append('qconj-')
    if leg.ind_len == 0 or np.any(np.diff(leg.slices) == 0):
        out.append('emptyblock')
    return out


def tol_for(*arrays, base=64):
    scale = 1.0
    size = 1
    for a in arrays:
        a = np.asarray(a)
        scale *= max(1.0, float(np.linalg.norm(a.ravel())) if a.size else 1.0)
        size = max(size, a.size)
    eps = np.finfo(np.float64).eps
    for a in arrays:
        if np.asarray(a).dtype in (np.float32, np.complex64):
            eps = np.finfo(np.float32).eps
    return base * eps * scale * max(1, size)
